"""Program shapes: one test function per call site so sites cannot hide each other."""
from __future__ import annotations

from .values import prologue_for

OPS = ("==", "==r", "<=", ">=", "in", "[k]")
PLACEMENTS = ("inline", "local", "module", "helper", "loop3", "multiline", "unicode")


def _cmp(op, x, s):
    if op == "==":
        return "%s == %s" % (x, s)
    if op == "==r":
        return "%s == %s" % (s, x)
    if op == "<=":
        return "%s <= %s" % (x, s)
    if op == ">=":
        return "%s >= %s" % (x, s)
    if op == "<=r":
        return "%s >= %s" % (s, x)
    if op == ">=r":
        return "%s <= %s" % (s, x)
    if op == "in":
        return "%s in %s" % (x, s)
    raise ValueError(op)


def site(i, op, exprs, placement="inline", arg="", keys=None, record=False):
    """Source of test function number i (plus module-level lines before it).
    exprs: observed value expressions (several = repeated evaluation of the same call site).
    arg: text inside snapshot(...) ('' = empty call). keys: for op '[k]' one key expr per observed expr.
    record: use `_ok = (...)` instead of assert, so observations do not depend on the approved set."""
    pre = ""
    S = "snapshot(%s)" % arg
    if placement == "multiline":
        S = "snapshot(\n        # comment\n    %s)" % (arg + "\n    " if arg else "")
    if placement == "unicode":
        exprs = ['("é🐍", %s)[1]' % e for e in exprs]
    body = []
    A = "_ok = " if record else "assert "
    if op == "[k]":
        assert keys and len(keys) == len(exprs)
        if placement == "module":
            pre = "s_%d = %s\n\n" % (i, S)
            name = "s_%d" % i
        elif placement in ("inline",) and len(exprs) == 1:
            name = None
        else:
            body.append("_s = %s" % S)
            name = "_s"
        for k, e in zip(keys, exprs):
            tgt = (name or S) + "".join("[%s]" % kk for kk in (k if isinstance(k, (list, tuple)) else [k]))
            body.append(A + "%s == %s" % (tgt, e))
        if placement == "loop3":
            body = ["for _ in range(3):"] + ["    " + b for b in body]
    elif placement == "module":
        pre = "s_%d = %s\n\n" % (i, S)
        body += [A + _cmp(op, e, "s_%d" % i) for e in exprs]
    elif placement == "local":
        body.append("_s = %s" % S)
        body += [A + _cmp(op, e, "_s") for e in exprs]
    elif placement == "helper":
        pre = "def check_%d(v, s):\n    %s\n\n\n" % (i, A + _cmp(op, "v", "s"))
        if len(exprs) == 1:
            body.append("check_%d(%s, %s)" % (i, exprs[0], S))
        else:
            body.append("for _x in [%s]:" % ", ".join(exprs))
            body.append("    check_%d(_x, %s)" % (i, S))
    else:  # inline, loop3, multiline, unicode
        if len(exprs) == 1:
            st = [A + _cmp(op, exprs[0], S)]
        else:
            st = ["for _x in [%s]:" % ", ".join(exprs), "    " + A + _cmp(op, "_x", S)]
        if placement == "loop3":
            st = ["for _ in range(3):"] + ["    " + b for b in st]
        body += st
    src = pre + "def test_%d():\n" % i + "".join("    " + b + "\n" for b in body)
    return src


def module(sites_src, exprs, extra_needs=(), clean=False, header=""):
    """Whole test module from site sources. clean=True formats it with the harness's own black call."""
    text = header + prologue_for(exprs, extra_needs) + "\n\n" + "\n\n".join(sites_src)
    if clean:
        import black

        text = black.format_str(text, mode=black.FileMode())
    return text
