"""Hand layouts for a previous snapshot argument (DESIGN.md section 4, R(v)): the same expression rendered
compact, spaced, with trailing commas, one element per line with comments, with redundant parentheses,
other quote style, computed spellings."""
from __future__ import annotations

import ast

STYLES = ("asis", "compact", "spaced", "trailing", "multiline", "parens", "quotes", "lambda", "ctor")


def renderings(expr, styles=STYLES):
    out = []
    seen = set()
    for st in styles:
        try:
            t = render(expr, st)
        except Exception:
            continue
        if t not in seen:
            seen.add(t)
            out.append((st, t))
    return out


def render(expr, style):
    if style == "asis":
        return expr
    if style == "lambda":
        # the value comes out of a call that is no constructor call: there is no display / constructor node to edit
        return "(lambda: %s)()" % expr
    node = ast.parse(expr, mode="eval").body
    if style == "ctor":
        # computed spelling of a display through the builtin constructor
        if isinstance(node, ast.List):
            return "list((%s))" % "".join(ast.unparse(e) + ", " for e in node.elts)
        if isinstance(node, ast.Tuple):
            return "tuple([%s])" % ", ".join(ast.unparse(e) for e in node.elts)
        if isinstance(node, ast.Set):
            return "set([%s])" % ", ".join(ast.unparse(e) for e in node.elts)
        if isinstance(node, ast.Dict):
            if len({ast.unparse(k) for k in node.keys}) != len(node.keys):
                raise ValueError("repeated key: no constructor spelling")
            if node.keys and all(isinstance(k, ast.Constant) and isinstance(k.value, str) and k.value.isidentifier() for k in node.keys):
                return "dict(%s)" % ", ".join("%s=%s" % (k.value, ast.unparse(v)) for k, v in zip(node.keys, node.values))
            return "dict([%s])" % ", ".join("(%s, %s)" % (ast.unparse(k), ast.unparse(v)) for k, v in zip(node.keys, node.values))
        raise ValueError("no constructor spelling")
    txt = _r(node, style, 1)
    ast.parse(txt, mode="eval")
    return txt


def _const(v, style):
    if isinstance(v, str) and style == "quotes":
        r = repr(v)
        if r[0] == "'" and '"' not in r and "\\" not in r:
            return '"' + r[1:-1] + '"'
        return r
    return repr(v)


def _seq(items, open_, close, style, depth, force_trailing=False):
    if not items:
        return open_ + close
    if style == "compact":
        return open_ + ",".join(items) + ("," if force_trailing else "") + close
    if style == "spaced":
        return open_ + "  " + " ,  ".join(items) + (" ," if force_trailing else "") + "  " + close
    if style == "trailing":
        return open_ + ", ".join(items) + "," + close
    if style == "multiline":
        ind = "    " * (depth + 1)
        body = "".join("%s%s,  # c%d\n" % (ind, it, i) for i, it in enumerate(items))
        return open_ + "\n" + body + "    " * depth + close
    return open_ + ", ".join(items) + ("," if force_trailing else "") + close


def _r(n, style, depth):
    if isinstance(n, ast.Constant):
        t = _const(n.value, style)
        return "(%s)" % t if style == "parens" and not isinstance(n.value, str) else t
    if isinstance(n, ast.Name):
        return n.id
    if isinstance(n, ast.Attribute):
        return _r(n.value, "plain", depth) + "." + n.attr
    if isinstance(n, ast.UnaryOp):
        return ast.unparse(n)
    if isinstance(n, ast.BinOp):
        return "(" + ast.unparse(n) + ")" if style == "parens" else ast.unparse(n)
    if isinstance(n, ast.List):
        return _seq([_r(e, style, depth + 1) for e in n.elts], "[", "]", style, depth)
    if isinstance(n, ast.Tuple):
        return _seq([_r(e, style, depth + 1) for e in n.elts], "(", ")", style, depth, force_trailing=len(n.elts) == 1)
    if isinstance(n, ast.Set):
        return _seq([_r(e, style, depth + 1) for e in n.elts], "{", "}", style, depth)
    if isinstance(n, ast.Dict):
        sep = ":" if style == "compact" else (" : " if style == "spaced" else ": ")
        return _seq([_r(k, style, depth + 1) + sep + _r(v, style, depth + 1) for k, v in zip(n.keys, n.values)], "{", "}", style, depth)
    if isinstance(n, ast.Call):
        eq = " = " if style == "spaced" else "="
        items = [_r(a, style, depth + 1) for a in n.args] + [k.arg + eq + _r(k.value, style, depth + 1) for k in n.keywords]
        return _r(n.func, "plain", depth) + _seq(items, "(", ")", style, depth)
    return ast.unparse(n)
