"""Value alphabets (DESIGN.md section 4). A value is a Python *expression string* evaluated in the
generated test module (whose prologue defines the classes it mentions); descriptors stay JSON-able."""
from __future__ import annotations

import itertools
import re
from collections import namedtuple

V = namedtuple("V", "expr kind hashable order")  # order: None | "num" | "str" | "bytes" | "seqnum"

PIECES = {
    "Color": "from enum import Enum\nclass Color(Enum):\n    RED = 1\n    GREEN = 2\n",
    "Perm": "from enum import Flag\nclass Perm(Flag):\n    R = 1\n    W = 2\n    X = 4\n",
    "K": "class K:\n    pass\n",
    "Outer": "class Outer:\n    class Inner:\n        pass\n",
    "DC": "from dataclasses import dataclass, field\n@dataclass\nclass DC:\n    x: object\n    y: int = 0\n    z: list = field(default_factory=list)\n",
    "DCH": "from dataclasses import dataclass, field\n@dataclass\nclass DCH:\n    x: object\n    h: int = field(default=3, repr=False, compare=False)\n",
    # class hierarchies: a value of a subclass is not a value of the base class (constructor name must change)
    "DCS": "@dataclass\nclass DCS(DC):\n    pass\n",
    "DCX": "@dataclass\nclass DCX(DC):\n    w: int = 0\n",
    "ATS": "@attrs.define\nclass ATS(AT):\n    pass\n",
    "PMS": "class PMS(PM):\n    pass\n",
    "NTS": "class NTS(NT):\n    pass\n",
    # classes defined inside another class: the generated constructor / member name has to be the qualified name
    "Geo": ("from dataclasses import dataclass, field\nfrom enum import Enum\nimport typing\nclass Geo:\n    @dataclass\n    class Point:\n        x: int\n        y: int = 0\n"
            "    class Kind(Enum):\n        A = 1\n    class NT2(typing.NamedTuple):\n        a: int\n        b: int = 0\n"),
    "AT": "import attrs\n@attrs.define\nclass AT:\n    a: object\n    b: int = 5\n    c: list = attrs.Factory(list)\n",
    "PM": "import pydantic\nclass PM(pydantic.BaseModel):\n    a: object\n    b: int = 7\n",
    # objects built by a helper that modifies a defaulted (never passed) field in place
    "mk_pm": ("import pydantic\nclass PML(pydantic.BaseModel):\n    a: object\n    c: list = pydantic.Field(default_factory=list)\n    n: int = 0\n\n"
              "def mk_pm(*items):\n    o = PML(a=1)\n    o.c.extend(items)\n    return o\n"),
    "mk_dc": "def mk_dc(*items):\n    o = DC(x=1)\n    o.z.extend(items)\n    return o\n",
    "mk_at": "def mk_at(*items):\n    o = AT(a=1)\n    o.c.extend(items)\n    return o\n",
    "DC2": "@dataclass\nclass DC2:\n    x: object\n    y: int = 0\n    z: list = field(default_factory=list)\n",
    "KEYNAME": "KEYNAME = 'kn'\n",
    # one type, two kinds of repr: code for small numbers, not code otherwise (the choice raw code / HasRepr belongs to the value)
    "Flk": ("class Flk:\n    def __init__(self, n):\n        self.n = n\n    def __eq__(self, o):\n        return self.n == o.n if isinstance(o, Flk) else NotImplemented\n"
            "    def __hash__(self):\n        return 1\n    def __repr__(self):\n        return 'Flk(%d)' % self.n if self.n < 5 else '<Flk %d>' % self.n\n"),
    "NT": "from collections import namedtuple\nNT = namedtuple('NT', 'a,b')\n",
    "NTD": "from collections import namedtuple\nNTD = namedtuple('NTD', 'a,b', defaults=[9])\n",
    # classes of the same kinds as DC / NT / AT with other field names (values of another class of the same adapter family)
    "DCO": "from dataclasses import dataclass\n@dataclass\nclass DCO:\n    p: object\n    q: int = 0\n",
    "NTO": "from collections import namedtuple\nNTO = namedtuple('NTO', 'p,q')\n",
    "ATO": "import attrs\n@attrs.define\nclass ATO:\n    p: object\n    q: int = 5\n",
    "defaultdict": "from collections import defaultdict\n",
    "Opaque": (
        "class Opaque:\n    def __init__(self, n=1):\n        self.n = n\n"
        "    def __repr__(self):\n        return '<Opaque %d>' % self.n\n"
        "    def __eq__(self, o):\n        return self.n == o.n if isinstance(o, Opaque) else NotImplemented\n"
        "    def __hash__(self):\n        return hash(self.n)\n"
    ),
    "inf": "from math import inf\n",
    "Is": "from inline_snapshot import Is\n",
    "HasRepr": "from inline_snapshot import HasRepr\n",
    "outsource": "from inline_snapshot import outsource\n",
    "external": "from inline_snapshot import external\n",
}
_NAME_RE = re.compile(r"\b(" + "|".join(sorted(PIECES, key=len, reverse=True)) + r")\b")


DEPS = {"mk_dc": "DC", "mk_at": "AT", "DC2": "DC", "DCS": "DC", "DCX": "DC", "ATS": "AT", "PMS": "PM", "NTS": "NT"}


def prologue_for(exprs, extra=()):
    need = []
    for e in list(exprs) + list(extra):
        for m in _NAME_RE.findall(e):
            if m in DEPS and DEPS[m] not in need:
                need.append(DEPS[m])
            if m not in need:
                need.append(m)
    seen_lines = []
    out = ["from inline_snapshot import snapshot\n"]
    for n in need:
        for block in [PIECES[n]]:
            # de-duplicate identical import lines
            lines = block.splitlines(keepends=True)
            keep = []
            for ln in lines:
                if (ln.startswith("from ") or ln.startswith("import ")) and ln in seen_lines:
                    continue
                seen_lines.append(ln)
                keep.append(ln)
            out.append("".join(keep))
    return "".join(out)


def _s(x):
    return repr(x)


STR_ATOMS = ["", "a", "a b", " a", "a ", "a\n", "a\nb", "\n", "a\n\nb", "'", '"', "\\", "é", "\t", "'\"", "a\n b\n"]
BYTES_ATOMS = [b"", b"a", b"\n'\""]

A_FULL = (
    [V("None", "none", True, None), V("True", "bool", True, "num"), V("False", "bool", True, "num")]
    + [V(e, "int", True, "num") for e in ("0", "1", "-1", "2**64", "-2")]
    + [V(e, "float", True, "num") for e in ("1.5", "-0.0", "1e100", "inf", "-inf", "-1.5", "1e-07")]
    # complex: with / without real part, negative zero in either part (repr keeps parentheses for a -0.0 real part)
    + [V(e, "complex", True, None) for e in ("1j", "(3+5j)", "-1j", "complex(-0.0, -2.0)", "complex(1, -0.0)", "(-3-5j)")]
    + [V(_s(s), "str", True, "str") for s in STR_ATOMS]
    + [V(_s(b), "bytes", True, "bytes") for b in BYTES_ATOMS]
    + [V("Color.RED", "enum", True, None), V("Perm.R", "flag", True, None),
       V("Perm.R | Perm.W", "flag", True, None), V("Perm(0)", "flag", True, None)]
    + [V("int", "type", True, None), V("K", "type", True, None), V("Outer.Inner", "type", True, None)]
    + [V("Geo.Point(x=1)", "dc", False, None), V("Geo.Point(x=1, y=2)", "dc", False, None), V("Geo.Kind.A", "enum", True, None),
       V("Geo.NT2(a=1)", "nt", True, None), V("Geo.NT2(a=1, b=2)", "nt", True, None), V("Geo.Point", "type", True, None)]
    + [V("DC(x=1)", "dc", False, None), V("DC(x=1, y=2)", "dc", False, None), V("DC(x=1, z=[1])", "dc", False, None),
       V("DC(x=[1, 'a'], y=0)", "dc", False, None), V("DCH(x=1)", "dc", False, None)]
    + [V("AT(a=1)", "attrs", False, None), V("AT(a=1, b=2, c=[3])", "attrs", False, None), V("AT(a=1, b=5)", "attrs", False, None)]
    + [V("PM(a=1)", "pydantic", False, None), V("PM(a=1, b=2)", "pydantic", False, None), V("PM(a=[1], b=7)", "pydantic", False, None)]
    + [V("NT(a=1, b=2)", "nt", True, None), V("NTD(a=1)", "nt", True, None), V("NTD(a=1, b=2)", "nt", True, None)]
    + [V("defaultdict(list, {'a': [1]})", "dd", False, None), V("defaultdict(list)", "dd", False, None),
       V("defaultdict(int, {1: 2})", "dd", False, None)]
    + [V("Opaque(1)", "opaque", True, None), V("Flk(1)", "opaque", True, None), V("Flk(7)", "opaque", True, None), V("[Flk(2), Flk(8)]", "opaque", False, None)]
    + [V("mk_pm(3)", "pydantic", False, None), V("mk_pm()", "pydantic", False, None), V("mk_dc(3)", "dc", False, None), V("mk_at(3)", "attrs", False, None)]
)
HEAVY = {"pydantic", "attrs", "dd", "opaque"}
A_LIGHT = [v for v in A_FULL if v.kind not in HEAVY]
A_CORE = [V("0", "int", True, "num"), V("-1", "int", True, "num"), V("1.5", "float", True, "num"),
          V("'a'", "str", True, "str"), V("'a\\nb'", "str", True, "str"), V("None", "none", True, None),
          V("b'x'", "bytes", True, "bytes"), V("Color.RED", "enum", True, None)]
A_TINY = [V("0", "int", True, "num"), V("'a'", "str", True, "str"), V("None", "none", True, None), V("Color.RED", "enum", True, None)]

KEYS = ["'k0'", "'k1'", "'k2'", "'k3'"]


def containers(elems, maxw, kinds=("list", "tuple", "dict", "set", "frozenset", "dckw")):
    """All containers with 0..maxw elements drawn from elems (ordered, with repetition for sequences)."""
    out = []
    for n in range(0, maxw + 1):
        for combo in itertools.product(elems, repeat=n):
            ex = [c.expr for c in combo]
            allh = all(c.hashable for c in combo)
            num = all(c.order == "num" for c in combo)
            if "list" in kinds:
                out.append(V("[" + ", ".join(ex) + "]", "list", False, "seqnum" if num and n else None))
            if "tuple" in kinds:
                t = "(" + ", ".join(ex) + ("," if n == 1 else "") + ")"
                out.append(V(t, "tuple", allh, "seqnum" if num and n else None))
            if "dict" in kinds:
                out.append(V("{" + ", ".join("%s: %s" % (KEYS[i], e) for i, e in enumerate(ex)) + "}", "dict", False, None))
            if "dckw" in kinds and n == 1:
                out.append(V("DC(x=%s)" % ex[0], "dc", False, None))
            if allh and len(set(ex)) == n:
                # sets: element multiset, order of the display is one construction order (C16 enumerates the rest)
                if "set" in kinds:
                    out.append(V("{" + ", ".join(ex) + "}" if n else "set()", "set", False, None))
                if "frozenset" in kinds:
                    out.append(V("frozenset({" + ", ".join(ex) + "})" if n else "frozenset()", "frozenset", True, None))
    return _dedup(out)


def dict_keyed(elems):
    """dicts whose keys are the interesting part: non-string keys."""
    out = []
    for k in elems:
        if k.hashable:
            out.append(V("{%s: 0}" % k.expr, "dict", False, None))
    return out


def _dedup(vs):
    seen = set()
    out = []
    for v in vs:
        if v.expr not in seen:
            seen.add(v.expr)
            out.append(v)
    return out


def _unequal_hashables(vs):
    # python equality merges 0/False/-0.0, 1/True in sets and dict keys; keep expressions apart
    return vs


def universe(tier):
    """U_q / U_t of DESIGN.md section 4, simplest first."""
    u = list(A_FULL)
    u += containers(A_LIGHT, 1)
    u += dict_keyed(A_LIGHT)
    u += containers(A_CORE, 2)
    d1 = A_TINY + containers(A_TINY, 1, kinds=("list", "tuple", "dict", "frozenset"))
    u += containers(d1, 2, kinds=("list", "tuple", "dict", "set"))
    u += containers([v for v in A_FULL if v.kind in HEAVY] + A_TINY[:1], 2, kinds=("list", "dict"))
    if tier == "thorough":
        u += containers(A_LIGHT, 2)
        u += containers(A_CORE, 3, kinds=("list", "tuple", "dict", "set"))
        d1c = A_CORE + containers(A_CORE, 1, kinds=("list", "tuple", "dict", "frozenset", "dckw"))
        u += containers(d1c, 2, kinds=("list", "tuple", "dict"))
        d2 = A_TINY[:2] + containers(d1[:12], 1, kinds=("list", "tuple", "dict"))
        u += containers(d2, 2, kinds=("list", "tuple", "dict"))
        # chains V(4,1)
        chain = list(A_CORE)
        for _ in range(4):
            chain = containers(chain, 1, kinds=("list", "tuple", "dict", "dckw"))
            chain = [c for c in chain if c.expr not in ("[]", "()", "{}")]
            u += chain
    return _dedup(u)


def orderable(vs):
    return [v for v in vs if v.order in ("num", "str", "bytes", "seqnum") and v.expr not in ("inf", "-inf") or v.expr in ("inf", "-inf")]
