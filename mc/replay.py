"""python -m mc.replay <replay.json>: re-execute one recorded case without the explorer."""
import importlib
import json
import os
import sys


def main():
    path = sys.argv[1]
    if os.environ.get("PYTHONHASHSEED") != "0":
        os.execve(sys.executable, [sys.executable, "-m", "mc.replay"] + sys.argv[1:], dict(os.environ, PYTHONHASHSEED="0"))
    sys.dont_write_bytecode = True
    repo = os.environ.get("MC_REPO")
    if repo:
        sys.path.insert(0, os.path.join(repo, "src"))
        os.environ["PYTHONPATH"] = os.path.join(repo, "src")
    rec = json.load(open(path))
    from mc.drivers import warm  # noqa
    from mc.engine import pool

    check = importlib.import_module(rec["check"])
    r = pool.run_one(check.run_case, rec["case"])
    print(json.dumps(r, indent=1, default=repr, ensure_ascii=False)[:6000])
    if r[0] == "ok" and any(v.get("what") == rec.get("what") for v in r[1]):
        print("REPRODUCED property=%s what=%s" % (rec["property"], rec.get("what")))
        sys.exit(1)
    print("NOT-REPRODUCED")
    sys.exit(0)


if __name__ == "__main__":
    main()
