"""Reference model of one session's configuration (DESIGN.md Appendix A.2). No code shared with the package.

config keys: cli (None | list of str), shortcut (None | name -> taken as a CLI value), env (None | list),
default (None | list: pyproject default-flags), tui (None | list: default-flags-tui), shortcuts (None | dict),
skip_updates (bool: pyproject skip-snapshot-updates-for-now), tty (bool), ci (None | variable name), pycharm (bool), xdist (None | "0" | "2"), answers (str of y/n)."""
from __future__ import annotations

CATS = ("create", "fix", "trim", "update")
KNOWN = set(CATS) | {"disable", "review", "report", "short-report"}
DEFAULT_SHORTCUTS = {"fix": ["create", "fix"], "review": ["review"]}


def resolve(cfg, pending=CATS):
    """Returns dict(error: bool, active: bool, approved: set, shown: set, flags: set)."""
    shortcuts = cfg.get("shortcuts") if cfg.get("shortcuts") is not None else DEFAULT_SHORTCUTS
    cli = cfg.get("cli")
    if cfg.get("shortcut"):
        if cfg["shortcut"] not in shortcuts:
            return {"error": True, "active": False, "approved": set(), "shown": set(), "flags": set()}
        cli = list(shortcuts[cfg["shortcut"]])
    xdist = cfg.get("xdist") not in (None, "0")
    if cli is not None:
        flags = {f for f in cli if f}
        if xdist and flags - {"disable"}:
            return {"error": True, "active": False, "approved": set(), "shown": set(), "flags": flags}
    elif cfg.get("env") is not None:
        flags = set(cfg["env"])
    elif cfg.get("tty"):
        flags = set(cfg["tui"] if cfg.get("tui") is not None else ["create", "review"])
    else:
        flags = set(cfg["default"] if cfg.get("default") is not None else ["report"])
    if flags - KNOWN:
        return {"error": True, "active": False, "approved": set(), "shown": set(), "flags": flags}
    if "disable" in flags and flags != {"disable"}:
        return {"error": True, "active": False, "approved": set(), "shown": set(), "flags": flags}
    ci = bool(cfg.get("ci")) and not cfg.get("pycharm")
    if xdist or ci:
        active = False
    elif "review" in flags:
        active = True
    else:
        active = "disable" not in flags
    approved, shown = set(), set()
    if active and "short-report" not in flags:
        answers = list(cfg.get("answers") or "")
        for c in CATS:
            if c not in pending:
                continue
            if not ({"review", "report", c} & flags):
                continue
            if c == "update" and cfg.get("skip_updates") and "update" not in flags:
                continue  # skip-snapshot-updates-for-now: not reported, no prompt, hence never approved through review
            shown.add(c)
            if c in flags:
                approved.add(c)
            elif "review" in flags:
                a = answers.pop(0) if answers else "n"
                if a == "y":
                    approved.add(c)
    return {"error": False, "active": active, "approved": approved, "shown": shown, "flags": flags}
