"""Textbook longest-common-subsequence length (independent DP)."""


def lcs(a, b):
    n, m = len(a), len(b)
    t = [[0] * (m + 1) for _ in range(n + 1)]
    for i in range(n):
        for j in range(m):
            t[i + 1][j + 1] = t[i][j] + 1 if a[i] == b[j] else max(t[i][j + 1], t[i + 1][j])
    return t[n][m]


def common_prefix(a, b):
    k = 0
    while k < len(a) and k < len(b) and a[k] == b[k]:
        k += 1
    return k


def common_suffix(a, b, prefix):
    k = 0
    while k < len(a) - prefix and k < len(b) - prefix and a[len(a) - 1 - k] == b[len(b) - 1 - k]:
        k += 1
    return k
