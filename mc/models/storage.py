"""Reference model of the external storage across sessions (DESIGN.md Appendix A.3).  Independent of the package.

A state is {"files": {name: text}, "store": {filename: content}}; test files have the fixed shape produced by
mc.checks.c13.test_file(), so payload and current reference can be read back with a regular expression."""
from __future__ import annotations

import hashlib
import re

from . import flags as FM

_PAY = re.compile(r"^PAYLOAD = '([^']*)'$", re.M)
_REF = re.compile(r"snapshot\((?:external\(\"([0-9a-f]*)(\*?)\.txt\"\))?\)")


def sha(p):
    return hashlib.sha256(p.encode()).hexdigest()


def parse(text):
    m = _PAY.search(text)
    r = _REF.search(text)
    return m.group(1), (None if r is None or r.group(1) is None else r.group(1))


def ref_text(h, hl):
    return h[:hl] + ("" if hl >= 64 else "*") + ".txt"


def step(state, flags, answers, hl, ci=False):
    """Predicts {"refs": {file: prefix or None}, "store": {filename: persisted?}, "approved": set} after one session."""
    files = {k: v for k, v in state["files"].items() if k.startswith("test_") and k.endswith(".py")}
    store = {k: True for k in state["store"] if "-new." not in k}          # 1. start: prune -new
    info = {}
    pending = set()
    for f, text in sorted(files.items()):
        p, ref = parse(text)
        h = sha(p)
        if h + ".txt" not in store:
            store[h + "-new.txt"] = False                                    # 2. outsource
        eq = ref is not None and h.startswith(ref)
        info[f] = (p, h, ref, eq)
        if ref is None:
            pending.add("create")
        elif not eq:
            pending.add("fix")
    m = FM.resolve({"cli": list(flags), "answers": answers, "ci": "CI" if ci else None}, pending=[c for c in FM.CATS if c in pending])
    A = m["approved"] if not m["error"] else set()
    refs = {}
    rewritten = set()
    for f, (p, h, ref, eq) in info.items():
        new = ref
        if ref is None and "create" in A:
            new = h[:hl]
            rewritten.add(f)
        elif ref is not None and not eq and "fix" in A:
            new = h[:hl]
            rewritten.add(f)
        refs[f] = new
    for f in rewritten:                                                      # 3. persist referenced -new files
        h = info[f][1]
        if h + "-new.txt" in store:
            del store[h + "-new.txt"]
            store[h + ".txt"] = True
    active = m["active"] and "short-report" not in m["flags"] and not m["error"]
    if active and "trim" in m["flags"]:                                       # 4. trim: flag given (review never asks: no trim changes)
        used = [r for r in refs.values() if r is not None]
        for name in list(store):
            if not any(name.startswith(r) for r in used):
                del store[name]
    return {"refs": refs, "store": store, "approved": A, "error": m["error"]}
