"""Reference model of the category algebra (DESIGN.md Appendix A.1). Shares no code with the package.

Abstract snapshot argument ("astate"):
  ("none",)                       no argument
  ("leaf", value, canon)          scalar; canon=False means hand-written text (`v+0`) that an update would rewrite
  ("list", (astate, ...))  ("tuple", (...))  ("dict", ((key, astate), ...))
A step maps (op, astate, observations, approved set F) to (reported categories R, next astate).
"""
from __future__ import annotations

import ast

NONE = ("none",)


def canonical(v):
    if isinstance(v, list):
        return ("list", tuple(canonical(x) for x in v))
    if isinstance(v, tuple):
        return ("tuple", tuple(canonical(x) for x in v))
    if isinstance(v, dict):
        return ("dict", tuple((k, canonical(x)) for k, x in v.items()))
    return ("leaf", v, True)


def val(a):
    t = a[0]
    if t == "leaf":
        return a[1]
    if t == "list":
        return [val(x) for x in a[1]]
    if t == "tuple":
        return tuple(val(x) for x in a[1])
    if t == "dict":
        return {k: val(x) for k, x in a[1]}
    raise ValueError(a)


def noncanon(a):
    t = a[0]
    if t == "none":
        return False
    if t == "leaf":
        return not a[2]
    if t == "dict":
        return any(noncanon(x) for _, x in a[1])
    return any(noncanon(x) for x in a[1])


def canonize(a):
    t = a[0]
    if t == "none":
        return a
    if t == "leaf":
        return ("leaf", a[1], True)
    if t == "dict":
        return ("dict", tuple((k, canonize(x)) for k, x in a[1]))
    return (t, tuple(canonize(x) for x in a[1]))


def text(a):
    """Source text of an astate (what the generator writes for a seed state)."""
    t = a[0]
    if t == "none":
        return ""
    if t == "leaf":
        if a[2]:
            return repr(a[1])
        assert isinstance(a[1], int)
        return "%r+0" % (a[1],)
    if t == "list":
        return "[" + ", ".join(text(x) for x in a[1]) + "]"
    if t == "tuple":
        return "(" + ", ".join(text(x) for x in a[1]) + ("," if len(a[1]) == 1 else "") + ")"
    if t == "dict":
        return "{" + ", ".join("%r: %s" % (k, text(x)) for k, x in a[1]) + "}"
    raise ValueError(a)


def abstract(src):
    """Parse the argument text found in a rewritten file back into an astate (independent of the package)."""
    src = src.strip()
    if not src:
        return NONE
    node = ast.parse(src, mode="eval").body
    return _abs(node)


def _abs(n):
    if isinstance(n, ast.Constant):
        return ("leaf", n.value, True)
    if isinstance(n, ast.UnaryOp) and isinstance(n.op, ast.USub) and isinstance(n.operand, ast.Constant):
        return ("leaf", -n.operand.value, True)
    if isinstance(n, ast.BinOp) and isinstance(n.op, ast.Add) and isinstance(n.right, ast.Constant) and n.right.value == 0 \
            and isinstance(n.left, ast.Constant):
        return ("leaf", n.left.value, False)
    if isinstance(n, ast.List):
        return ("list", tuple(_abs(e) for e in n.elts))
    if isinstance(n, ast.Tuple):
        return ("tuple", tuple(_abs(e) for e in n.elts))
    if isinstance(n, ast.Dict):
        return ("dict", tuple((ast.literal_eval(k), _abs(v)) for k, v in zip(n.keys, n.values)))
    raise ValueError("unmodelled expression: " + ast.dump(n))


# ---------------------------------------------------------------- steps

def step(op, prev, act, F):
    """act: for ==: {"x": v, "n": times}; <=,>=,in: {"xs": [...]}; [k]: {"acc": [[key, childop|None, child_act|None], ...]};
    op None / act None = snapshot evaluated but never compared."""
    F = set(F)
    if act is None or op is None:
        return _never(prev, F)
    if op in ("==", "==r"):
        return _eq(prev, act["x"], F)
    if op in ("<=", ">="):
        return _bound(op, prev, act["xs"], F)
    if op == "in":
        return _in(prev, act["xs"], F)
    if op == "[k]":
        return _getitem(prev, act["acc"], F)
    raise ValueError(op)


def _never(prev, F):
    if prev == NONE:
        return set(), prev
    if noncanon(prev):
        return {"update"}, (canonize(prev) if "update" in F else prev)
    return set(), prev


def _eq(prev, x, F):
    if prev == NONE:
        return {"create"}, (canonical(x) if "create" in F else prev)
    p = val(prev)
    if not (p == x) or type(p) is not type(x):
        return {"fix"}, (canonical(x) if "fix" in F else prev)
    if noncanon(prev):
        return {"update"}, (canonize(prev) if "update" in F else prev)
    return set(), prev


def _bound(op, prev, xs, F):
    e = max(xs) if op == "<=" else min(xs)
    if prev == NONE:
        return {"create"}, (canonical(e) if "create" in F else prev)
    p = val(prev)
    worse = (e > p) if op == "<=" else (e < p)
    slack = (e < p) if op == "<=" else (e > p)
    if worse:
        return {"fix"}, (canonical(e) if "fix" in F else prev)
    if slack:
        return {"trim"}, (canonical(e) if "trim" in F else prev)
    if noncanon(prev):
        return {"update"}, (canonize(prev) if "update" in F else prev)
    return set(), prev


def _first_occurrences(xs):
    n = []
    for x in xs:
        if x not in n:
            n.append(x)
    return n


def _in(prev, xs, F):
    N = _first_occurrences(xs)
    if prev == NONE:
        return {"create"}, (canonical(N) if "create" in F else prev)
    assert prev[0] == "list"
    elems = prev[1]
    vals = [val(e) for e in elems]
    missing = [x for x in N if x not in vals]
    R = set()
    nxt = []
    for e in elems:
        used = val(e) in N
        if not used:
            R.add("trim")
            if "trim" not in F:
                nxt.append(e)
            continue
        if noncanon(e):
            R.add("update")
            nxt.append(canonize(e) if "update" in F else e)
        else:
            nxt.append(e)
    if missing:
        R.add("fix")
        if "fix" in F:
            nxt += [canonical(m) for m in missing]
    return R, ("list", tuple(nxt))


def child_new_value(cop, cact):
    """Value a fresh child holds after its observations (used when the parent is created / a key is inserted)."""
    if cop in ("==", "==r"):
        return canonical(cact["x"])
    if cop == "<=":
        return canonical(max(cact["xs"]))
    if cop == ">=":
        return canonical(min(cact["xs"]))
    if cop == "in":
        return canonical(_first_occurrences(cact["xs"]))
    if cop == "[k]":
        return ("dict", tuple((k, child_new_value(o, a)) for k, o, a in cact["acc"] if o is not None))
    raise ValueError(cop)


def _getitem(prev, acc, F):
    acc_keys = [k for k, _, _ in acc]
    assert len(set(acc_keys)) == len(acc_keys)
    if prev == NONE:
        new = tuple((k, child_new_value(o, a)) for k, o, a in acc if o is not None)
        return {"create"}, (("dict", new) if "create" in F else prev)
    assert prev[0] == "dict"
    R = set()
    nxt = []
    byk = {k: (o, a) for k, o, a in acc}
    for k, child in prev[1]:
        if k not in byk:
            R.add("trim")
            if "trim" not in F:
                nxt.append((k, child))
            continue
        o, a = byk[k]
        r, c2 = step(o, child, a, F)
        R |= r
        nxt.append((k, c2))
    old_keys = [k for k, _ in prev[1]]
    ins = [(k, child_new_value(o, a)) for k, o, a in acc if k not in old_keys and o is not None]
    if ins:
        R.add("create")
        if "create" in F:
            nxt += ins
    return R, ("dict", tuple(nxt))
