"""D_fault: a pytest plugin object (for plugin.session(preexec=...)) that counts the calls made at library / stdlib
boundaries while pytest_sessionfinish runs and injects one fault at a chosen (boundary, call index)."""
from __future__ import annotations

import builtins
import collections
import json
import os

KINDS = {
    "format_str": ("raise", "garbage", "truncated", "exit", "fragdiff"),
    "sp_run": ("raise", "nonzero", "killed", "garbage", "truncated", "badutf8", "exit"),
    "generate_tokens": ("raise", "exit"),
    "read_text": ("raise", "exit"),
    "rename": ("raise", "exit_before", "exit_after"),
    "open_bw": ("raise", "exit_after"),
    "write": ("raise", "exit_mid"),
}


class InjectedFault(OSError):
    pass


def make(target=None, counts_file=".counts.json"):
    """target: None (recording) or [boundary, index, kind]. Returns a factory for plugin.session(preexec=...)."""

    def factory():
        import pathlib
        import subprocess
        import tokenize

        import black
        import pytest

        st = {"armed": False, "counts": collections.Counter(), "fired": False}

        targets = [] if target is None else ([target] if isinstance(target[0], str) else list(target))
        st["fired_n"] = 0

        def hit(b):
            if not st["armed"]:
                return None
            n = st["counts"][b]
            st["counts"][b] += 1
            for t in targets:
                if t[0] == b and t[1] == n:
                    st["fired"] = True
                    st["fired_n"] += 1
                    return t[2]
            return None

        def die():
            try:
                with open(".fired", "w") as f:
                    f.write("1")
            except Exception:
                pass
            os._exit(70)

        real_format_str = black.format_str

        def format_str(src, **kw):
            k = hit("format_str")
            if k == "fragdiff":
                # valid python with another meaning - only for a value fragment: for a whole file such an answer cannot be
                # told from a formatter that legitimately rewrites code, for a fragment the generated value would change
                if "def test_" in src or "import " in src:
                    return real_format_str(src, **kw)
                return "None\n"
            if k == "raise":
                raise InjectedFault("format_str")
            if k == "exit":
                die()
            if k == "garbage":
                return "def (:\n  ]]]\n"
            if k == "truncated":
                return real_format_str(src, **kw)[: max(1, len(src) // 2)] + "\n((("
            return real_format_str(src, **kw)

        black.format_str = format_str

        real_run = subprocess.run

        def run(*a, **kw):
            k = hit("sp_run") if kw.get("shell") else None
            if k == "raise":
                raise InjectedFault("subprocess.run")
            if k == "exit":
                die()
            r = real_run(*a, **kw)
            if k == "nonzero":
                return subprocess.CompletedProcess(r.args, 1, stdout=b"", stderr=b"formatter crashed (injected)\n")
            if k == "killed":
                # the formatter died from a signal after writing a part of its output
                return subprocess.CompletedProcess(r.args, -9, stdout=r.stdout[: max(1, len(r.stdout) // 2)], stderr=b"")
            if k == "garbage":
                return subprocess.CompletedProcess(r.args, 0, stdout=b"def (:\n  ]]]\n", stderr=b"")
            if k == "truncated":
                # an interrupted formatter: half of the output, which is not valid python
                return subprocess.CompletedProcess(r.args, 0, stdout=r.stdout[: max(1, len(r.stdout) // 2)] + b"\n(((", stderr=b"")
            if k == "badutf8":
                return subprocess.CompletedProcess(r.args, 0, stdout=b"x = '\xff\xfe'\n", stderr=b"")
            return r

        subprocess.run = run

        real_gt = tokenize.generate_tokens

        def generate_tokens(readline):
            k = hit("generate_tokens")
            if k == "raise":
                raise InjectedFault("generate_tokens")
            if k == "exit":
                die()
            return real_gt(readline)

        tokenize.generate_tokens = generate_tokens

        real_read_text = pathlib.Path.read_text

        def read_text(self, *a, **kw):
            k = hit("read_text") if str(self).endswith(".py") else None
            if k == "raise":
                raise InjectedFault("read_text")
            if k == "exit":
                die()
            return real_read_text(self, *a, **kw)

        pathlib.Path.read_text = read_text

        # the same boundary ("a test file is read") when the source is opened the way python decodes it
        real_tok_open = tokenize.open

        def tok_open(filename):
            k = hit("read_text") if str(filename).endswith(".py") and "site-packages" not in str(filename) else None
            if k == "raise":
                raise InjectedFault("read_text")
            if k == "exit":
                die()
            return real_tok_open(filename)

        tokenize.open = tok_open

        real_rename = pathlib.Path.rename

        def rename(self, t):
            k = hit("rename")
            if k == "raise":
                raise InjectedFault("rename")
            if k == "exit_before":
                die()
            r = real_rename(self, t)
            if k == "exit_after":
                die()
            return r

        pathlib.Path.rename = rename

        real_open = builtins.open

        class W:
            def __init__(self, f):
                self._f = f

            def write(self, data):
                k = hit("write")
                if k == "raise":
                    raise InjectedFault("write")
                if k == "exit_mid":
                    self._f.write(data[: len(data) // 2])
                    self._f.flush()
                    die()
                return self._f.write(data)

            def __enter__(self):
                self._f.__enter__()
                return self

            def __exit__(self, *a):
                return self._f.__exit__(*a)

            def __getattr__(self, n):
                return getattr(self._f, n)

        def open_(file, mode="r", *a, **kw):
            if st["armed"] and "b" in mode and "w" in mode and str(file).endswith(".py"):
                k = hit("open_bw")
                if k == "raise":
                    raise InjectedFault("open")
                f = real_open(file, mode, *a, **kw)
                if k == "exit_after":
                    die()
                return W(f)
            return real_open(file, mode, *a, **kw)

        builtins.open = open_

        class Plugin:
            @pytest.hookimpl(tryfirst=True)
            def pytest_sessionfinish(self, session):
                st["armed"] = True

            def pytest_unconfigure(self, config):
                st["armed"] = False
                with real_open(counts_file, "w") as f:
                    json.dump({"counts": dict(st["counts"]), "fired": st["fired"], "fired_n": st["fired_n"]}, f)

        return Plugin()

    return factory
