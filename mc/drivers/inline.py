"""D_inline: the public in-process driver Example.run_inline, observed through Cap objects.
D_reexec: execute a (rewritten) module while inline-snapshot is inactive."""
from __future__ import annotations

import os
import traceback

from . import warm  # noqa: F401  (imports + env)

_MISSING = object()


class Cap:
    """Compares equal to anything and records the operand: lets the public API hand us
    reported categories / changed files / raised exceptions."""

    __hash__ = None

    def __init__(self):
        self.v = _MISSING

    def __eq__(self, other):
        self.v = other
        return True

    def get(self, default=None):
        return default if self.v is _MISSING else self.v


def neutral_cwd():
    d = os.path.join(warm.EMPTY_HOME, "proj-%d" % os.getpid())
    if not os.path.isdir(d):
        os.makedirs(d, exist_ok=True)
        with open(os.path.join(d, "pyproject.toml"), "w") as f:
            f.write("")
    return d


def run_inline(files, flags=(), cwd=None, pyproject=None):
    """One in-process session. files: name -> text. Returns dict:
    files (after), changed (name->text), reported (sorted list), raised (str|None),
    error (None | {"type","msg","tb"}) for exceptions escaping run_inline itself."""
    from inline_snapshot.testing import Example

    if isinstance(files, str):
        files = {"test_something.py": files}
    d = cwd or neutral_cwd()
    if pyproject is not None:
        d = os.path.join(warm.EMPTY_HOME, "cfg-%d-%x" % (os.getpid(), hash(pyproject) & 0xFFFFFFFF))
        os.makedirs(d, exist_ok=True)
        with open(os.path.join(d, "pyproject.toml"), "w") as f:
            f.write(pyproject)
    os.chdir(d)
    rc, cf, ra = Cap(), Cap(), Cap()
    args = ["--inline-snapshot=" + ",".join(flags)] if flags else []
    out = {"files": dict(files), "changed": {}, "reported": None, "raised": None, "error": None}
    try:
        fs = dict(files)
        if pyproject is not None and "pyproject.toml" not in fs:
            # (black's options are looked up from the test file upwards: the project file sits next to the generated module)
            fs["pyproject.toml"] = pyproject
        ex = Example(fs)
        res = ex.run_inline(args, reported_categories=rc, changed_files=cf, raises=ra)
        out["files"] = {k: v for k, v in res.files.items() if k in files or k.endswith(".py")}
        out["files"].pop("pyproject.toml", None) if "pyproject.toml" not in files else None
        out["changed"] = cf.get({})
        out["reported"] = rc.get(None)
        out["raised"] = ra.get(None)
    except BaseException as e:  # noqa
        out["error"] = {"type": type(e).__name__, "msg": str(e)[:2000], "tb": traceback.format_exc()[-4000:]}
        out["reported"] = rc.get(None)
    return out


import builtins as _b

_BUILTINS = dict(_b.__dict__)


def reexec(files, only=None, ns_hook=None):
    """Run every test_* function of every .py file with inline-snapshot inactive
    (snapshot(x) is x, snapshot() raises).  Returns name -> {"module_error", "tests": {fn: None|str}}"""
    from inline_snapshot._global_state import state

    assert not state().active, "reexec must run outside any snapshot session"
    # "run again with inline-snapshot disabled" is a new process: builtins a session left replaced must not help the re-run
    import builtins

    for k, v in _BUILTINS.items():
        if builtins.__dict__.get(k) is not v:
            builtins.__dict__[k] = v
    res = {}
    for name, src in sorted(files.items()):
        if not name.endswith(".py") or (only and name not in only):
            continue
        ent = {"module_error": None, "tests": {}}
        res[name] = ent
        import sys, types

        mod = types.ModuleType("reexec_" + name[:-3].replace("/", "_"))
        sys.modules[mod.__name__] = mod
        ns = mod.__dict__
        try:
            code = compile(src, "<reexec:%s>" % name, "exec")
            if ns_hook:
                ns_hook(ns)
            exec(code, ns)
        except BaseException as e:  # noqa
            ent["module_error"] = "%s: %s" % (type(e).__name__, str(e)[:500])
            continue
        for k, v in list(ns.items()):
            if (k.startswith("test_") or k == "test") and callable(v):
                try:
                    v()
                    ent["tests"][k] = None
                except BaseException as e:  # noqa
                    ent["tests"][k] = "%s: %s" % (type(e).__name__, str(e)[:500])
    return res
