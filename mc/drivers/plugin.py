"""D_plugin: one real pytest session (pytest.main) in a child forked from a process that has
never run a session; cwd = project, scrubbed environment, stdin/stdout are files.
D_cold: the same through a cold `python -m pytest` subprocess."""
from __future__ import annotations

import os
import re
import shutil
import subprocess
import sys
import tempfile

from . import warm

NOPLUG = []
for _n in ("benchmark", "hypothesispytest", "pytest_cov", "asyncio", "rerunfailures", "timeout", "pytest_mock",
           "freezer", "subtests", "xdist.looponfail"):
    NOPLUG += ["-p", "no:" + _n]
BASE = ["-q", "-p", "no:cacheprovider", "-rA"]

_scratch_root = None


def scratch_root():
    global _scratch_root
    if _scratch_root is None or not os.path.isdir(_scratch_root):
        _scratch_root = tempfile.mkdtemp(prefix="mc-prj-%d-" % os.getpid())
    return _scratch_root


def cleanup():
    global _scratch_root
    if _scratch_root and os.path.isdir(_scratch_root):
        shutil.rmtree(_scratch_root, ignore_errors=True)
    _scratch_root = None


def mk_project(files, root=None):
    d = tempfile.mkdtemp(prefix="p", dir=root or scratch_root())
    write_files(d, files)
    return d


def write_files(d, files):
    for n, c in files.items():
        p = os.path.join(d, n)
        os.makedirs(os.path.dirname(p), exist_ok=True)
        if isinstance(c, str):
            c = c.encode("utf-8")
        with open(p, "wb") as f:
            f.write(c)


HARNESS_FILES = {".out", ".in", ".junit.xml"}


def listing(d, text=False):
    out = {}
    for dp, dns, fns in os.walk(d):
        dns[:] = [x for x in dns if x not in ("__pycache__", ".pytest_cache")]
        for fn in fns:
            if fn in HARNESS_FILES and dp == d:
                continue
            p = os.path.join(dp, fn)
            rel = os.path.relpath(p, d)
            with open(p, "rb") as f:
                b = f.read()
            out[rel] = b.decode("utf-8", "surrogateescape") if text else b
    return dict(sorted(out.items()))


_LINE = re.compile(r"^(PASSED|FAILED|ERROR|XFAIL|XPASS|SKIPPED)\s+(\S+)", re.M)


def outcomes(out):
    res = {}
    for m in _LINE.finditer(out):
        st, nid = m.group(1), m.group(2)
        res.setdefault(nid, [])
        if st not in res[nid]:
            res[nid].append(st)
    return res


def session(d, args=(), stdin=None, env=None, noplug=True, xdist=False, preexec=None, timeout=120, bytecode=False):
    """Run one real session in project directory d. Returns dict(rc, out, outcomes)."""
    d = str(d)
    if stdin is not None:
        with open(os.path.join(d, ".in"), "wb") as f:
            f.write(stdin)
    sys.stdout.flush()
    sys.stderr.flush()
    pid = os.fork()
    if pid == 0:
        code = 99
        try:
            from ..engine import pool as _pool

            _pool.coverage_after_fork()
            os.setsid()
            os.chdir(d)
            out = os.open(".out", os.O_WRONLY | os.O_CREAT | os.O_TRUNC)
            os.dup2(out, 1)
            os.dup2(out, 2)
            inp = os.open(".in" if stdin is not None else os.devnull, os.O_RDONLY)
            os.dup2(inp, 0)
            sys.stdin = open(0, "r", closefd=False)
            sys.stdout = open(1, "w", closefd=False)
            sys.stderr = open(2, "w", closefd=False)
            warm.scrub_env(env)
            sys.dont_write_bytecode = not bytecode
            if bytecode:
                os.environ.pop("PYTHONDONTWRITEBYTECODE", None)
            sys.path.insert(0, d)
            import signal

            signal.alarm(timeout)
            argv = list(BASE)
            if noplug:
                argv += NOPLUG
                if not xdist:
                    argv += ["-p", "no:xdist"]
            argv += list(args)
            plugins = []
            if preexec:
                p = preexec()
                if p is not None:
                    plugins.append(p)
            import pytest

            code = int(pytest.main(argv, plugins=plugins))
            sys.stdout.flush()
            sys.stderr.flush()
        except BaseException:  # noqa
            import traceback

            traceback.print_exc()
            try:
                sys.stderr.flush()
            except Exception:
                pass
            code = 98
        finally:
            try:
                _pool.coverage_save()
            except BaseException:  # noqa
                pass
            os._exit(code)
    _, st = os.waitpid(pid, 0)
    try:
        os.killpg(pid, 9)
    except OSError:
        pass
    if not bytecode:
        shutil.rmtree(os.path.join(d, "__pycache__"), ignore_errors=True)
    try:
        with open(os.path.join(d, ".out"), errors="replace") as f:
            out = f.read()
    except OSError:
        out = ""
    rc = os.waitstatus_to_exitcode(st)
    return {"rc": rc, "out": out, "outcomes": outcomes(out)}


def cold_session(d, args=(), stdin=b"", env=None, noplug=True, hashseed="0", timeout=300):
    """python -m pytest in a cold interpreter (reference for the fork server, C16, C19)."""
    e = {}
    for k in ("PATH", "LANG", "LC_ALL", "TMPDIR") + (("PYTHONPATH", "MC_REPO") if "MC_REPO" in os.environ else ()):
        if k in os.environ:
            e[k] = os.environ[k]
    e.update({"HOME": warm.EMPTY_HOME, "XDG_CONFIG_HOME": warm.EMPTY_HOME, "PYTHONHASHSEED": str(hashseed),
              "BLACK_CACHE_DIR": os.path.join(warm.EMPTY_HOME, "cache"),
              "PYTHONDONTWRITEBYTECODE": "1", "TERM": "unknown", "COLUMNS": "200"})
    if env:
        e.update(env)
    argv = [sys.executable, "-m", "pytest"] + BASE + (NOPLUG + ["-p", "no:xdist"] if noplug else []) + list(args)
    r = subprocess.run(argv, cwd=str(d), env=e, input=stdin, capture_output=True, timeout=timeout)
    shutil.rmtree(os.path.join(str(d), "__pycache__"), ignore_errors=True)
    out = r.stdout.decode("utf-8", "replace") + r.stderr.decode("utf-8", "replace")
    return {"rc": r.returncode, "out": out, "outcomes": outcomes(out)}


def report_sections(out):
    """Category sections shown in the inline-snapshot report ('Create snapshots', ...)."""
    return sorted(set(m.lower() for m in re.findall(r"(Create|Fix|Trim|Update) snapshots", out)))


def internal_error(out):
    return "INTERNALERROR" in out or "Traceback (most recent call last)" in out.split("short test summary")[-1]
