"""Imports done once in the long-lived parent so forked children start warm.
The parent must never run a session itself."""
import os
import sys

sys.dont_write_bytecode = True

REPO = os.environ.get("MC_REPO", "/repo")

import inline_snapshot  # noqa: E402

_p = os.path.realpath(inline_snapshot.__file__)
if not _p.startswith(os.path.realpath(REPO) + "/src/"):
    sys.stderr.write(
        f"HARNESS-ERROR: inline_snapshot imported from {_p}, expected {REPO}/src (checks must run against the working tree)\n"
    )
    sys.exit(2)

import ast, tokenize, io, copy, dataclasses, enum, collections, tempfile, pathlib, shutil  # noqa
import pytest, _pytest.assertion.rewrite, _pytest.pytester  # noqa
import black, asttokens, executing  # noqa
import rich, rich.syntax, rich.panel, rich.prompt, rich.console  # noqa
import pygments.lexers, pygments.lexers.diff, pygments.styles  # noqa

try:
    import pygments.lexers.python, pygments.formatters  # noqa
except Exception:
    pass
import pydantic, pydantic.main, attrs  # noqa
import inline_snapshot.pytest_plugin, inline_snapshot.testing, inline_snapshot.extra  # noqa
import inline_snapshot._external, inline_snapshot._find_external  # noqa

try:
    import xdist, xdist.plugin, pytest_timeout  # noqa
except Exception:
    pass

# an empty HOME so black never finds a user-level config
EMPTY_HOME = tempfile.mkdtemp(prefix="mc-home-")
import atexit  # noqa


def _rm():
    if os.getpid() == _PID:
        shutil.rmtree(EMPTY_HOME, ignore_errors=True)


_PID = os.getpid()
atexit.register(_rm)

CI_VARS = (
    "CI", "bamboo.buildKey", "BUILD_ID", "BUILD_NUMBER", "BUILDKITE", "CIRCLECI",
    "CONTINUOUS_INTEGRATION", "GITHUB_ACTIONS", "HUDSON_URL", "JENKINS_URL",
    "TEAMCITY_VERSION", "TRAVIS",
)


def scrub_env(extra=None):
    keep = {}
    for k in os.environ:
        if k in ("PATH", "LANG", "LC_ALL", "TMPDIR") or k.startswith(("MC_", "VERIF_")) or (k == "PYTHONPATH" and "MC_REPO" in os.environ):
            keep[k] = os.environ[k]
    keep["HOME"] = EMPTY_HOME
    keep["XDG_CONFIG_HOME"] = EMPTY_HOME
    keep["XDG_CACHE_HOME"] = os.path.join(EMPTY_HOME, "cache")
    keep["BLACK_CACHE_DIR"] = os.path.join(EMPTY_HOME, "cache")
    keep["PYTHONHASHSEED"] = os.environ.get("PYTHONHASHSEED", "0")
    keep["PYTHONDONTWRITEBYTECODE"] = "1"
    keep["TERM"] = "unknown"
    keep["COLUMNS"] = "200"
    if extra:
        keep.update(extra)
    os.environ.clear()
    os.environ.update(keep)


scrub_env()
