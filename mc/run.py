"""python -m mc.run C05 [--tier quick|thorough]"""
import argparse
import os
import sys


def main():
    ap = argparse.ArgumentParser()
    ap.add_argument("prop")
    ap.add_argument("--tier", default=os.environ.get("VERIF_TIER") or "quick")
    a = ap.parse_args()
    if os.environ.get("PYTHONHASHSEED") != "0" and not os.environ.get("MC_KEEP_HASHSEED"):
        env = dict(os.environ, PYTHONHASHSEED="0")
        os.execve(sys.executable, [sys.executable, "-m", "mc.run"] + sys.argv[1:], env)
    sys.dont_write_bytecode = True
    repo = os.environ.get("MC_REPO")
    if repo:
        # run against another checkout (seeded-defect worktrees): its sources must win over the installed package
        sys.path.insert(0, os.path.join(repo, "src"))
        os.environ["PYTHONPATH"] = os.path.join(repo, "src")
    tier = a.tier if a.tier in ("quick", "thorough") else "quick"
    try:
        seed = int(os.environ.get("VERIF_SEED", "0") or 0)
    except ValueError:
        seed = 0
    from mc.engine import core

    mod = "mc.checks." + a.prop.lower()
    sys.exit(core.run_check(mod, tier, seed))


if __name__ == "__main__":
    main()
