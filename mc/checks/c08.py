"""C08 - a second run is a no-op.
State graph s0 -F-> s1 -F-> s2 (-F-> s3 thorough) for every initial program and every approved set F:
s2 must equal s1 byte for byte; for F = all four categories the second session must report nothing to
create / fix / trim.  A slice runs as real double sessions (exit status 0, no diff panel)."""
from __future__ import annotations

import itertools

from ..engine import batch
from ..gen import values as G
from ..gen import render as R

ID = "C08"
LEVEL = "model_checking"
RULE = ("initial programs = empty / wrong / slack / hand-layout snapshots over the value universe and all five operations, "
        "x all 16 approved subsets F; history of 2 (thorough 3) identical sessions with F through Example.run_inline; the "
        "second transition must be a self-loop on the file state; states = distinct file texts reached, transitions = sessions; "
        "a deterministic slice is replayed as real pytest double sessions (second run: exit status 0, no create/fix/trim "
        "section, no diff panel, file unchanged)"
        "; plus double sessions over 11 import headers x 5 site lists, sites modified after the comparison, a bytecode-cache history")
ASSUMPTIONS = ["an internally noted `update` whose diff is empty is allowed in the second run as long as no file changes "
               "and no create/fix/trim is reported (the anchored 'empty diffs are hidden' mechanism)"]
BATCH = 40
CATS = ("create", "fix", "trim", "update")
FS = [list(c) for n in range(5) for c in itertools.combinations(CATS, n)]
TASK_TIMEOUT = 900

TRICKY = ["1j", "(3+5j)", "-1", "-1.5", "1e100", "-0.0", "inf", "2**64", "((0,),)", "(0,)", "()", "[(0, (1,))]", "{0, 1}", "set()",
          "frozenset()", "frozenset({0, 'a'})", "'\\'\"'", "'a\\nb'", "'a\\n'", "'\\n'", "''", "' a '", "b'\\n\\''", "DC(x=1)",
          "DC(x=1, y=0)", "DC(x=1, z=[])", "DCH(x=1)", "AT(a=1, b=5)", "PM(a=1, b=7)", "NTD(a=1, b=9)", "NT(a=1, b=2)",
          "defaultdict(list)", "defaultdict(list, {'a': []})", "Opaque(1)", "Color.RED", "Perm.R | Perm.W", "Perm(0)", "int", "Outer.Inner",
          "[1j, -1]", "{'k': (3+5j)}", "{1j: 0}", "[[]]", "{'a': {}}", "None", "True", "{(0,): 1}", "[' a', 'b ']", "'é🐍'", "'\\t'", "'\\\\'"]


EXT_SITES = [{"st": "assert outsource('text-1') == snapshot()", "n": ["outsource"]},
             {"st": "assert [outsource(b'bytes-2')] == snapshot([0])", "n": ["outsource"]},
             {"st": "assert snapshot()['k'] == outsource('text-3')", "n": ["outsource"]}]


def bounds(tier):
    return {"sites": len(_sites(tier)), "approved_sets": 16, "history_len": 2 if tier == "quick" else 3}


def _sites(tier):
    sites = []
    vals = list(TRICKY) + [v.expr for v in G.A_FULL if v.expr not in TRICKY]
    if tier == "thorough":
        vals += [v.expr for v in G.universe("quick")[:1500] if v.expr not in vals]
    for v in vals:
        sites.append({"st": "assert %s == snapshot()" % v, "n": [v]})
        sites.append({"st": "assert %s in snapshot()" % v, "n": [v]})
        sites.append({"st": "assert snapshot()['k'] == %s" % v, "n": [v]})
        sites.append({"st": "assert %s == snapshot(0)" % v, "n": [v]})
        sites.append({"st": "assert %s in snapshot([0])" % v, "n": [v]})
        sites.append({"st": "assert [0, %s] == snapshot([0])" % v, "n": [v]})
    for v in ("-1", "-1.5", "1e100", "2**64", "' a '", "'a\\nb'", "(0, (1,))", "b'x'", "inf", "-0.0"):
        for op in ("<=", ">="):
            sites.append({"st": "assert %s %s snapshot()" % (v, op), "n": [v]})
    # hand layouts that need an update, compared with an equal value
    for v in ("[0, 'a']", "(0,)", "{'k0': 0, 'k1': [1]}", "DC(x=1, y=2)", "'a'", "[(3+5j)]", "{0, 1}", "-1", "NT(a=1, b=2)", "'a\\nb'"):
        for st, txt in R.renderings(v, R.STYLES):
            sites.append({"st": "assert %s == snapshot(%s)" % (v, txt), "n": [v]})
    sites += [{"st": s, "n": ["DC", "NT", "AT", "PM"]} for s in (
        "assert DC(x=1, y=2, z=[3]) == snapshot(DC(x=1))", "assert DC(x=1, y=2, z=[3]) == snapshot(DC(1))", "assert NT(a=1, b=2) == snapshot(NT(a=1, b=3))",
        "assert AT(a=1, b=2, c=[3]) == snapshot(AT(a=1))", "assert PM(a=1, b=2) == snapshot(PM(a=0))",
        "assert 5 <= snapshot(7)", "assert 5 >= snapshot(2)", "assert 5 in snapshot([5, 6])", "assert 5 in snapshot([4+0, 5, 6])",
        "assert snapshot({'a': 5, 'b': 1})['a'] == 5", "assert snapshot({'a': 5+0, 'b': 1})['c'] == 6",
        "assert 5 == snapshot(2+3)", "assert 5 <= snapshot(2+3)", "assert 5 in snapshot([2+3, 1+0])", "assert 'ab' == snapshot('a' 'b')",
        "assert [1, 2] == snapshot([1,\n        2,\n    ])", "assert DC(x=1) == snapshot(DC(x=1, y=0, z=[]))", "assert DC(x=1) == snapshot(DC(1))",
        "assert DC(x=2, y=3) == snapshot(DC(1, 3))", "assert (1, 2) == snapshot((1,))", "assert (1,) == snapshot((1, 2))",
        "assert [] == snapshot([1, 2])", "assert {} == snapshot({'a': 1})", "assert {'a': 1, 'b': 2} == snapshot({'b': 2})",
        "assert {'a': 5, 'b': 1} == snapshot({'a': 0, 'b': 1, 'a': 2})", "assert {'a': 2, 'b': 1} == snapshot({'a': 0, 'b': 1+0, 'a': 2})", "assert {1: 'x'} == snapshot({1: 'i', True: 'b'})",
        "assert 1 == snapshot([1])", "assert [1] == snapshot(1)", "assert 'a' == snapshot(b'a')",
    )]
    sites += [{"st": s, "n": []} for s in (
        "for x in (1, 8, 2):\n        assert x <= snapshot(5)", "for x in (3, 1, 2):\n        assert x >= snapshot()",
        "for x in (1, 3, 2):\n        assert x <= snapshot()", "s = snapshot()\n    for x in (2, 3, 1):\n        assert x <= s['k']\n        assert x >= s['j']", "for x in (1, 2, 1):\n        assert x in snapshot([3])",
        "s = snapshot()\n    assert s['a'] == 1\n    assert 2 in s['b']\n    assert 3 <= s['c']",
        "s = snapshot({'a': 1, 'z': 0})\n    assert s['a'] == 2\n    assert s['b']['c'] == 3",
        # classes defined inside the test function
        "class User:\n        def __repr__(self):\n            return '<User 1>'\n        def __eq__(self, o):\n            return isinstance(o, User) or NotImplemented\n    assert User() == snapshot()",
        "import enum\n    class Col(enum.Enum):\n        RED = 1\n    assert [Col.RED] == snapshot()",
        "import enum\n    class Perm2(enum.Flag):\n        R = 1\n        W = 2\n    assert (Perm2.R | Perm2.W) == snapshot(0)",
        "from dataclasses import dataclass\n    @dataclass\n    class Pt:\n        x: int\n        y: int = 0\n    assert {'k': Pt(1)} == snapshot({'k': Pt(x=2)})",
        "class K:\n        pass\n    assert [K, int] == snapshot([int])",
        # the compared object is changed by the test after the comparison: both sessions see the same value at comparison time
        "v = ('rows', [1])\n    assert v == snapshot()\n    v[1].append(2)", "v = [1, {'k': (2, [3])}]\n    assert v == snapshot()\n    v[1]['k'][1].append(4)",
        "v = (1, [2])\n    assert v <= snapshot()\n    v[1].append(0)", "v = (frozenset([1]), [2])\n    assert v in snapshot()\n    v[1].clear()",
        "v = ('a', {'b': 1})\n    assert snapshot()['k'] == v\n    v[1]['c'] = 2", "v = ([1],)\n    assert v == snapshot(([0],))\n    v[0].append(2)",
        "v = {'t': (1, [2])}\n    for _ in (1, 2):\n        assert v == snapshot()\n    v['t'][1].append(3)",
    )]
    return sites


def build(tier, seed):
    sites = _sites(tier)
    tasks = []
    for F in FS:
        for i in range(0, len(sites), BATCH):
            tasks.append({"cases": [dict(s, F=F) for s in sites[i : i + BATCH]]})
    # real double sessions: one file per approved set holding a spread of sites
    step = max(1, len(sites) // (12 if tier == "quick" else 60))
    for F in (FS if tier == "thorough" else [list(CATS), ["create", "fix"], ["update"], ["trim", "update"]]):
        for off in range(0, step if tier == "thorough" else 2):
            sel = sites[off::step][:25] + EXT_SITES
            tasks.append({"plugin": [dict(s, F=F) for s in sel], "F": F})
    for F in ([list(CATS), ["fix", "trim"], ["fix"]]):
        tasks.append({"pyc": True, "F": F})
    ic = [{"imports": True, "header": h, "sites": st, "F": F} for h in IMPORT_HEADERS for st in (["hasrepr"], ["external"], ["both"], ["fix", "external"], ["hasrepr", "external", "fix"], ["nested-class"], ["nested-class-in", "external"])
          for F in (list(CATS), ["create", "fix"])]
    for i in range(0, len(ic), 5):
        tasks.append({"imports": ic[i : i + 5]})
    return tasks


def _site(i, c):
    return "def test_%d():\n    %s\n" % (i, c["st"])


def _module(cases):
    from ..gen import programs as P

    exprs = []
    for c in cases:
        exprs += c["n"] + [c["st"]]
    needs = ["HasRepr"] if any("Opaque" in e or "Flk" in e for e in exprs) else []
    return P.module([_site(i, c) for i, c in enumerate(cases)], exprs, needs)


def _judge(cases, hist=2):
    from ..drivers.inline import run_inline

    F = cases[0]["F"]
    src = _module(cases)
    ctx = {"src": src, "states": [src]}
    n = len(cases)
    cur = src
    texts = [src]
    reports = []
    for k in range(hist):
        r = run_inline({"test_something.py": cur}, F)
        if r["error"]:
            return [("internal-error", "session %d: %s: %s" % (k + 1, r["error"]["type"], r["error"]["msg"][:300]))] * n, ctx
        cur = r["files"]["test_something.py"]
        texts.append(cur)
        reports.append(r["reported"] or [])
    ctx["states"] = texts
    ctx["after"] = texts[-1]
    verdict = None
    for k in range(2, len(texts)):
        if texts[k] != texts[k - 1]:
            verdict = ("file-changes-again", "session %d changed the file again under F=%s:\n%s" % (k, F, _diff(texts[k - 1], texts[k])))
            break
    if verdict is None and set(F) == set(CATS):
        bad = set(reports[1]) & {"create", "fix", "trim"}
        if bad:
            verdict = ("pending-after-full-approval", "second session still reports %s" % sorted(bad))
    return [verdict] * n, ctx


def _diff(a, b):
    import difflib

    return "\n".join(list(difflib.unified_diff(a.splitlines(), b.splitlines(), lineterm="", n=0))[2:12])[:600]


def _judge_plugin(cases):
    from ..drivers import plugin

    F = cases[0]["F"]
    src = _module(cases)
    # a second file whose only pending change belongs to the first category: categories are previewed per file
    second = "from inline_snapshot import snapshot\n\n\ndef test_other():\n    assert 5 == snapshot()\n"
    d = plugin.mk_project({"test_something.py": src, "test_zz_other.py": second, "pyproject.toml": ""})
    out = []
    try:
        arg = ["--inline-snapshot=" + ",".join(F)]
        r1 = plugin.session(d, arg)
        s1 = plugin.listing(d, text=True)
        r2 = plugin.session(d, ["--inline-snapshot=" + ",".join(F + ["report"])] if set(F) != set(CATS) else arg)
        s2 = plugin.listing(d, text=True)
    finally:
        plugin.cleanup()
    what = None
    if plugin.internal_error(r1["out"]) or plugin.internal_error(r2["out"]):
        what = ("internal-error", (r1["out"] + r2["out"])[-800:])
    elif s1 != s2:
        what = ("file-changes-again", _diff(s1.get("test_something.py", ""), s2.get("test_something.py", "")))
    elif set(F) == set(CATS):
        secs = plugin.report_sections(r2["out"])
        if r2["rc"] != 0:
            what = ("second-run-not-green", "rc=%s\n%s" % (r2["rc"], r2["out"][-800:]))
        elif secs:
            what = ("second-run-shows-diff", "sections %s\n%s" % (secs, r2["out"][-800:]))
    return what, {"src": src, "states": [src, s1.get("test_something.py"), s2.get("test_something.py")]}


# where (and whether) the names the generated code needs are already imported in the file: only a module-level
# `from inline_snapshot import <name>` binds them for the snapshot arguments
IMPORT_HEADERS = {
    "none": "",
    "function": "def helper():\n    from inline_snapshot import HasRepr, external\n\n    return HasRepr, external\n\n\n",
    "class": "class K:\n    from inline_snapshot import HasRepr, external\n\n\n",
    "if-false": "if False:\n    from inline_snapshot import HasRepr, external\n\n\n",
    "type-checking": "from typing import TYPE_CHECKING\n\nif TYPE_CHECKING:\n    from inline_snapshot import HasRepr, external\n\n\n",
    "try": "try:\n    from inline_snapshot import HasRepr, external\nexcept ImportError:\n    pass\n\n\n",
    "aliased": "from inline_snapshot import HasRepr as HR, external as ext\n\n\n",
    "other-module": "from os.path import join as external, split as HasRepr\n\n\n",
    "module-level": "from inline_snapshot import HasRepr, external\n\n\n",
    "one-of-two": "from inline_snapshot import external\n\n\ndef helper():\n    from inline_snapshot import HasRepr\n\n\n",
    "test-local": "def test_reference():\n    from inline_snapshot import HasRepr, external\n\n    assert HasRepr and external\n\n\n",
}
IMPORT_SITES = {"hasrepr": "assert Thing() == snapshot()", "external": "assert outsource('payload') == snapshot()",
                "both": "assert [Thing(), outsource(b'bytes')] == snapshot()", "fix": "assert {'k': Thing()} == snapshot({'k': 0})",
                "nested-class": "assert Thing.Part() == snapshot()", "nested-class-in": "assert Thing.Part() in snapshot([0])"}


def _judge_imports(case):
    from ..drivers import plugin

    # (the header sits in the import block at the top: a later statement of the user that rebinds the name is the user's own shadowing)
    src = ("from inline_snapshot import snapshot, outsource\n" + IMPORT_HEADERS[case["header"]].rstrip("\n") + "\n\n\nclass Thing:\n    def __repr__(self):\n        return '<Thing>'\n\n"
           "    def __eq__(self, other):\n        return isinstance(other, Thing) or NotImplemented\n\n"
           "    class Part:\n        def __repr__(self):\n            return '<part>'\n\n        def __eq__(self, other):\n            return isinstance(other, Thing.Part) or NotImplemented\n\n\n"
           + "".join("def test_%d():\n    %s\n\n\n" % (i, IMPORT_SITES[n]) for i, n in enumerate(case["sites"])))
    d = plugin.mk_project({"test_something.py": src, "pyproject.toml": ""})
    try:
        arg = ["--inline-snapshot=" + ",".join(case["F"])]
        r1 = plugin.session(d, arg)
        s1 = plugin.listing(d, text=True)["test_something.py"]
        r2 = plugin.session(d, arg)
        s2 = plugin.listing(d, text=True)["test_something.py"]
        r3 = plugin.session(d, [])
    finally:
        plugin.cleanup()
    if any(plugin.internal_error(r["out"]) for r in (r1, r2, r3)):
        return ("internal-error", (r1["out"][-500:] + r2["out"][-500:]))
    if s1 == src:
        return ("harness", "first run changed nothing: " + r1["out"][-300:])
    if s2 != s1:
        return ("file-changes-again", _diff(s1, s2))
    if r2["rc"] != 0 or plugin.report_sections(r2["out"]):
        return ("second-run-not-green", "rc=%s sections=%s\n--- file after the first run ---\n%s\n--- output ---\n%s" % (r2["rc"], plugin.report_sections(r2["out"]), s1[-700:], r2["out"][-600:]))
    if r3["rc"] != 0:
        return ("plain-run-after-approval-not-green", "rc=%s\n%s\n%s" % (r3["rc"], s1[-700:], r3["out"][-600:]))
    return None


def _judge_pyc_history(case):
    """A real directory with the bytecode cache ON (the Python default): the source files are dated back, so a rewrite on
    the unchanged tree always gets a different mtime and pytest's rewritten .pyc (keyed by mtime and size) is invalidated."""
    import os
    import time
    from ..drivers import plugin

    files = {"test_something.py": "from inline_snapshot import snapshot\n\n\ndef test_a():\n    assert 7 == snapshot(3)\n\n\ndef test_b():\n    assert 'xy' == snapshot('ab')\n    assert 5 <= snapshot(9)\n",
             "pyproject.toml": ""}
    d = plugin.mk_project(files)
    try:
        old = time.time() - 5000
        os.utime(os.path.join(d, "test_something.py"), (old, old))
        r0 = plugin.session(d, [], bytecode=True)                       # fills the bytecode cache
        r1 = plugin.session(d, ["--inline-snapshot=" + ",".join(case["F"])], bytecode=True)
        s1 = plugin.listing(d, text=True)["test_something.py"]
        r2 = plugin.session(d, ["--inline-snapshot=" + ",".join(case["F"])], bytecode=True)
        s2 = plugin.listing(d, text=True)["test_something.py"]
    finally:
        plugin.cleanup()
    if s1 == files["test_something.py"]:
        return ("harness", "first run changed nothing: " + r1["out"][-300:])
    if s2 != s1:
        return ("file-changes-again", _diff(s1, s2))
    if set(case["F"]) >= {"fix", "trim"} and (r2["rc"] != 0 or plugin.report_sections(r2["out"])):
        return ("second-run-not-green", "rc=%s sections=%s (stale bytecode of the previous source?)\n%s" % (r2["rc"], plugin.report_sections(r2["out"]), r2["out"][-500:]))
    return None


def run_case(case):
    if "imports" in case:
        w = _judge_imports(case)
        return [{"case": case, "what": w[0], "detail": w[1]}] if w else []
    if "pyc" in case:
        w = _judge_pyc_history(case)
        return [{"case": case, "what": w[0], "detail": w[1]}] if w else []
    if "plugin" in case:
        w, ctx = _judge_plugin(case["plugin"])
        return [{"case": case, "what": w[0], "detail": w[1]}] if w else []
    return batch.replay(case, _judge, sig=_sig)


def _sig(c, v):
    return None


def run_task(task):
    if "imports" in task:
        out = {"n": 0, "nontrivial": [], "outcomes": {}, "violations": [], "samples": []}
        for c in task["imports"]:
            vs = run_case(c)
            out["n"] += 1
            out["violations"] += vs
            lab = "viol:" + vs[0]["what"] if vs else "ok:import-shape-double-session"
            if not vs:
                out["nontrivial"].append("imports|%s|%s|%s" % (c["header"], c["sites"], c["F"]))
            out["outcomes"][lab] = out["outcomes"].get(lab, 0) + 1
        return out
    if "pyc" in task:
        vs = run_case(task)
        return {"n": 1, "nontrivial": [] if vs else ["pyc|%s" % task["F"]], "outcomes": {("viol:" + vs[0]["what"]) if vs else "ok:bytecode-cache-history": 1},
                "violations": vs, "samples": [], "states": [], "transitions": 3, "validated": 0 if vs else 1}
    if "plugin" in task:
        cases = task["plugin"]
        w, ctx = _judge_plugin(cases)
        out = {"n": 1, "nontrivial": [], "outcomes": {}, "violations": [], "samples": [], "states": [], "transitions": 2, "validated": 1}
        out["states"] = [s for s in ctx["states"] if s]
        if w:
            # bisect to single sites through the same real double session
            found = False
            for c in cases:
                w1, _ = _judge_plugin([c])
                if w1:
                    found = True
                    out["violations"].append({"case": {"plugin": [c], "F": c["F"]}, "what": w1[0], "detail": w1[1]})
            if not found:
                out["violations"].append({"case": {"plugin": cases, "F": task["F"]}, "what": w[0], "detail": w[1]})
            out["outcomes"]["viol:" + w[0]] = 1
        else:
            out["nontrivial"].append("plugin|%s|%d" % (task["F"], len(cases)))
            out["outcomes"]["ok:plugin-double-session"] = 1
        return out
    hist = 2
    r = batch.run_batched(task["cases"], lambda cs: _judge(cs, hist), label=lambda c: "ok:" + "+".join(c["F"]),
                          key=lambda c: repr((c["st"], c["F"])), sig=_sig, strict_batch=True)
    _, ctx = _judge(task["cases"], hist)
    r["states"] = list(ctx["states"])
    r["transitions"] = hist
    r["validated"] = 0
    return r
