"""C03 - rewriting touches only the arguments of snapshot() calls.
Layouts x change sets.  Oracle: the result parses; the skeleton (file text with the interior of every top-level
snapshot(...) call masked, call parentheses located independently with ast end positions) is byte-identical
when no whole-file formatting applies, otherwise the AST with snapshot arguments replaced by placeholders and
the sequence of comments outside the calls are identical; the only other tolerated edit is the inserted
`from inline_snapshot import external|HasRepr`; sites without an approved pending change keep their interior."""
from __future__ import annotations

import ast
import io
import itertools
import tokenize

ID = "C03"
LEVEL = "exploration"
RULE = ("files built from all ordered pairs (and a slice of triples) of 25 site kinds (create / fix scalar, list, dict, tuple, "
        "multi-line-with-comments / trim / update / unchanged / HasRepr / external) placed on ONE line, x 6 line styles (plain, "
        "non-ASCII+astral text left of the call, tabs, helper-call nesting, `;`-joined, trailing comment) x approved sets; "
        "real-plugin core: 10 import-block shapes x {HasRepr, external} insertion, newline variants LF/CRLF/CR, formatter-clean "
        "files, format-command; non-trivial = some approved change really altered the file and the skeleton oracle was "
        "evaluated; distinct = (sites, style, approved set, file variant)"
        "; plus unencodable values in single-byte encoded files and files reached through symbolic links (real sessions)")
ASSUMPTIONS = ["black 26.5.1 default mode decides 'formatter-clean' on the harness side", "snapshot calls are spelled `snapshot(`"]
TASK_TIMEOUT = 900
CATS = ("create", "fix", "trim", "update")

# name: (operation, observed expr, argument text, category)
SITES = {
    "create": ("==", "5", "", "create"),
    "createl": ("==", "[1, 'é']", "", "create"),
    "fixs": ("==", "5", "4", "fix"),
    "fixl": ("==", "[1, 3, 4]", "[1, 2, 3]", "fix"),
    "fixfirst": ("==", "[9, 2]", "[1, 2]", "fix"),
    "fixlast": ("==", "[1, 9]", "[1, 2]", "fix"),
    "fixempty": ("==", "[]", "[1]", "fix"),
    "fixgrow": ("==", "[1, 2]", "[]", "fix"),
    "fixd": ("==", "{'a': 1, 'c': 3}", "{'a': 1, 'b': 2}", "fix"),
    "fixt1": ("==", "(1,)", "(1, 2)", "fix"),
    "fixt2": ("==", "(1, 2)", "(1,)", "fix"),
    "fixml": ("==", "[1, 3]", "[\n        1,  # one\n        2,\n    ]", "fix"),
    "fixstr": ("==", "'a\\nb'", "''", "fix"),
    "fixuni": ("==", "'é🐍'", "'x'", "fix"),
    "fixkw": ("==", "DC(x=1, y=2)", "DC(x=1, y=3)", "fix"),
    "fixparl": ("==", "[1, 3]", "[(1), (2), (3)]", "fix"),
    "fixpard": ("==", "{1: 2}", "{1: (2), 3: 4}", "fix"),
    "fixpart": ("==", "(1, 2)", "((1), (3))", "fix"),
    "trimb": ("<=", "5", "9", "trim"),
    "trimin": ("in", "5", "[5, 6]", "trim"),
    "trimd": ("[k]", "5", "{'a': 5, 'b': 6}", "trim"),
    "upd": ("==", "5", "2+3", "update"),
    "updl": ("==", "[1, 2]", "[1, 1+1]", "update"),
    "none": ("==", "5", "5", None),
    "nonel": ("==", "[1, (2,)]", "[1, (2,)]", None),
}
PLUGIN_SITES = {
    # new values holding a character the file's single-byte source encoding cannot represent (written as \u escapes in the test)
    "unencfix": ("==", "'z\\u0141\\u20ac'", "'old'", "fix"),
    "unenccreate": ("==", "['\\u0141']", "", "create"),
    "hasrepr": ("==", "Opaque(1)", "", "create"),
    "ext": ("==", "outsource('x')", "", "create"),
}
STYLES = ("plain", "uni", "tab", "nest", "semi", "comment", "attr", "callcallee")


def bounds(tier):
    return {"site_kinds": len(SITES), "styles": list(STYLES), "approved_sets": len(_fsets(tier)),
            "import_shapes": len(IMPORT_SHAPES), "newlines": ["LF", "CRLF", "CR"], "source_encodings": ["utf-8", "utf-8 with BOM", "latin-1 cookie", "cp1252 cookie"]}


def _fsets(tier):
    if tier == "quick":
        return [list(CATS), ["create", "fix"], ["trim"], ["update"], []]
    return [list(c) for n in range(5) for c in itertools.combinations(CATS, n)]


def _expr(name, style):
    op, obs, arg, cat = (SITES.get(name) or PLUGIN_SITES[name])
    s = "snapshot(%s)" % arg
    if style == "attr":
        s = "inline_snapshot.snapshot(%s)" % arg
    if style == "callcallee":
        s = "lib(\"x\").snapshot(%s)" % arg
    if style == "uni":
        obs = '("é🐍ß", %s)[1]' % obs
    if op == "[k]":
        return "%s['a'] == %s" % (s, obs)
    if style == "nest":
        if op == "==":
            return "same(%s, wrap(%s))" % (s, obs)
        return "%s %s wrap(%s)" % (obs, op, s)
    return "%s %s %s" % (obs, op, s)


def line(names, style):
    body = " and ".join(_expr(n, style) for n in names)
    ind = "\t" if style == "tab" else "    "
    if style == "semi":
        return ind + "x = 1; assert " + body + "; y = 'é'\n"
    if style == "comment":
        return ind + "assert " + body + "  # trailing ünï 🐍 comment snapshot(\n"
    return ind + "assert " + body + "\n"


HELPERS = ("import inline_snapshot\n\n\ndef same(s, v):\n    return v == s\n\n\ndef wrap(v):\n    return v\n\n\n"
           "def lib(name):\n    return inline_snapshot\n\n\n")


def build_file(tests, header="from inline_snapshot import snapshot\n", needs=(), weird=False):
    from ..gen.values import prologue_for

    exprs = []
    for names, style in tests:
        for n in names:
            exprs.append((SITES.get(n) or PLUGIN_SITES[n])[1])
            exprs.append((SITES.get(n) or PLUGIN_SITES[n])[2])
    pro = prologue_for(exprs, needs).replace("from inline_snapshot import snapshot\n", "", 1)
    out = [header, "# -*- héader cömment 🐍 -*-\n", pro, "\n\n", HELPERS]
    if weird:
        # characters that str.splitlines() treats as line ends but the Python tokenizer does not
        out.insert(2, "W1 = 'u2028:\u2028 u2029:\u2029 x85:\x85 x1c:\x1c x1d:\x1d x1e:\x1e'  # \x0b vt, \x1c fs\n\x0c\nW2 = 1\n\x0c\n")
    for i, (names, style) in enumerate(tests):
        out.append("def test_%d():\n%s\n\n" % (i, line(names, style)))
    return "".join(out)


def comments_outside(text, spans):
    res = []
    try:
        for tok in tokenize.generate_tokens(io.StringIO(text).readline):
            if tok.type == tokenize.COMMENT:
                res.append(tok.string)
    except (tokenize.TokenError, IndentationError):
        return None
    return res


class _Mask(ast.NodeTransformer):
    def visit_Call(self, node):
        if isinstance(node.func, ast.Name) and node.func.id == "snapshot":
            return ast.copy_location(ast.Call(func=node.func, args=[ast.Constant("§")], keywords=[]), node)
        return self.generic_visit(node)


def masked_ast(text):
    return ast.dump(_Mask().visit(ast.parse(text)))


def check_file(before, after, cats_by_site, F, formatted, allow_imports=()):
    """Returns (what, detail) or None. cats_by_site: category (or None) of each top-level call, in source order."""
    from ..oracles.locate import skeleton

    try:
        ast.parse(after)
    except SyntaxError as e:
        return ("result-not-valid-python", "%s\n%s" % (e, _ctx(after, e.lineno)))
    sk_b, in_b = skeleton(before)
    a2 = after
    for imp in allow_imports:
        stmt = "\nfrom inline_snapshot import %s\n" % imp
        if stmt in a2 and stmt not in before:
            a2 = a2.replace(stmt, "", 1)
    try:
        sk_a, in_a = skeleton(a2)
    except SyntaxError as e:
        return ("result-not-valid-python-after-import-removal", str(e))
    if len(in_a) != len(in_b):
        return ("number-of-snapshot-calls-changed", "%d -> %d" % (len(in_b), len(in_a)))
    if not formatted:
        if sk_a != sk_b:
            return ("text-outside-snapshot-arguments-changed", _first_diff(sk_b, sk_a))
    else:
        if masked_ast(before) != masked_ast(a2):
            return ("syntax-tree-outside-snapshot-arguments-changed", _first_diff(sk_b, sk_a))
        cb, ca = comments_outside(before, None), comments_outside(a2, None)
        if cb is not None and ca is not None and sorted(cb) != sorted(ca):
            return ("comments-changed", "%s -> %s" % (cb, ca))
    if len(cats_by_site) == len(in_b):
        for i, c in enumerate(cats_by_site):
            if (c is None or c not in F) and in_b[i] != in_a[i] and not formatted:
                return ("unapproved-site-interior-changed", "site %d (%s): %r -> %r" % (i, c, in_b[i], in_a[i]))
    return None


def _ctx(text, lineno):
    ls = text.splitlines()
    if not lineno:
        return ""
    return "\n".join(ls[max(0, lineno - 2) : lineno + 1])


def _first_diff(a, b):
    i = 0
    while i < min(len(a), len(b)) and a[i] == b[i]:
        i += 1
    return "first difference at offset %d: before %r | after %r" % (i, a[max(0, i - 40) : i + 60], b[max(0, i - 40) : i + 60])


# ------------------------------------------------------------------ in-process breadth

def _inline_cases(tier):
    names = list(SITES)
    cases = []
    for a in names:
        for b in names:
            for st in STYLES:
                cases.append({"names": [a, b], "style": st})
    trip = names if tier == "thorough" else ["create", "fixl", "fixml", "trimin", "upd", "none", "fixstr", "fixt1"]
    for a in trip:
        for b in trip:
            for c in trip:
                cases.append({"names": [a, b, c], "style": "uni" if (len(a) + len(c)) % 2 else "plain"})
    for a in names:
        for st in STYLES:
            cases.append({"names": [a], "style": st})
    for a in names:
        for b in names[::3]:
            cases.append({"names": [a, b], "style": "uni", "weird": True})
    return cases


def _judge_inline(cases, F):
    from ..drivers.inline import run_inline

    tests = [(c["names"], c["style"]) for c in cases]
    src = build_file(tests, weird=bool(cases[0].get("weird")))
    r = run_inline({"test_something.py": src}, F)
    n = len(cases)
    ctx = {"src": src}
    if r["error"]:
        return [("internal-error", r["error"]["type"] + ": " + r["error"]["msg"][:300])] * n, ctx
    after = r["files"]["test_something.py"]
    ctx["after"] = after
    cats = []
    for names, st in tests:
        cats += [SITES[x][3] for x in names]
    import black

    clean = black.format_str(src, mode=black.FileMode()) == src
    v = check_file(src, after, cats, F, clean)
    ctx["changed"] = after != src
    return [v] * n, ctx


# ------------------------------------------------------------------ real-plugin core

IMPORT_SHAPES = {
    "plain": "from inline_snapshot import snapshot\n",
    "future": "from __future__ import annotations\nfrom inline_snapshot import snapshot\n",
    "multiline": "from inline_snapshot import snapshot\nfrom os import (\n    path,\n    sep,\n)\n",
    "backslash": "from inline_snapshot import snapshot\nfrom os import path, \\\n    sep\n",
    "semicolon": "from inline_snapshot import snapshot\nimport os; x = 1\n",
    "comment": "from inline_snapshot import snapshot  # cömment 🐍\n",
    "docstring": '"""module docstring"""\nfrom inline_snapshot import snapshot\n',
    "docfuture": '"""module docstring"""\nfrom __future__ import annotations\nfrom inline_snapshot import snapshot\n',
    "tryimport": "from inline_snapshot import snapshot\ntry:\n    import json\nexcept ImportError:\n    json = None\n",
    "commentfirst": "# first line cömment\n\nimport os\nfrom inline_snapshot import snapshot\nx = (1,\n     2)\n",
    "twoon1": "import os, sys; from inline_snapshot import snapshot\n",
    "localimport": "from inline_snapshot import snapshot\n\n\ndef local_user():\n    from inline_snapshot import HasRepr, external\n    return HasRepr, external\n",
    "classimport": "from inline_snapshot import snapshot\n\n\nclass Holder:\n    from inline_snapshot import HasRepr, external\n",
}


# files that already import (at module level, in various places) and use the names generated code may need: no import may be added
IMPORTED = {
    "top": "from inline_snapshot import snapshot, external, HasRepr, outsource\n",
    "after-statement": "import sys\nsys.path.insert(0, '.')\nfrom inline_snapshot import snapshot, external, HasRepr, outsource\n",
    "separate-after-call": "import os\nos.environ.setdefault('MC_X', '1')\nfrom inline_snapshot import snapshot\nfrom inline_snapshot import external\nfrom inline_snapshot import HasRepr, outsource\n",
    "doc-importorskip-multiline": '"""doc"""\nimport pytest\npytest.importorskip("json")\nfrom inline_snapshot import (\n    snapshot,\n    external,\n    HasRepr,\n    outsource,\n)\n',
    "after-assignment-semicolon": "x = 1\nfrom inline_snapshot import snapshot, outsource; from inline_snapshot import external, HasRepr\n",
    "after-function": "def early():\n    return 1\n\n\nfrom inline_snapshot import snapshot, external, HasRepr, outsource\n",
    "after-if-block": "import sys\nif sys.version_info < (3, 0):\n    raise ImportError('old')\nfrom inline_snapshot import external, HasRepr\nfrom inline_snapshot import snapshot, outsource\n",
}
KEPT = "kept-data"


def _imported_file(shape, which):
    import hashlib

    opq = ("class Opaque:\n    def __init__(self, n):\n        self.n = n\n    def __repr__(self):\n        return '<Opaque %d>' % self.n\n"
           "    def __eq__(self, o):\n        return self.n == o.n if isinstance(o, Opaque) else NotImplemented\n\n\n")
    h = hashlib.sha256(KEPT.encode()).hexdigest()
    tests = {"hasrepr": "def test_h():\n    assert Opaque(1) == snapshot(HasRepr(Opaque, \"<Opaque 1>\"))\n\n\n",
             "ext": "def test_e():\n    assert outsource('%s') == snapshot(external(\"%s*.txt\"))\n\n\n" % (KEPT, h[:12])}
    body = "".join(tests[w] for w in which)
    return IMPORTED[shape] + "\n\n" + opq + body + "def test_fix():\n    assert 2 == snapshot(3)\n    assert [1, 5] == snapshot([1])\n", {".inline-snapshot/external/%s.txt" % h: KEPT}


def _judge_imported(c):
    from ..drivers import plugin

    src, store = _imported_file(c["shape"], c["names"])
    d = plugin.mk_project(dict({"test_something.py": src, "pyproject.toml": ""}, **store))
    try:
        r = plugin.session(d, ["--inline-snapshot=" + ",".join(c["F"])])
        lst = plugin.listing(d, text=True)
        after = lst["test_something.py"]
    finally:
        plugin.cleanup()
    ctx = {"src": src, "after": after, "changed": after != src}
    if plugin.internal_error(r["out"]) or r["rc"] not in (0, 1):
        return ("internal-error", "rc=%s %s" % (r["rc"], r["out"][-700:])), ctx
    if "ext" in c["names"] and not all(k in lst for k in store):
        return ("referenced-external-removed", "approved %s: the file still references the external, storage now %s" % (c["F"], sorted(k for k in lst if "external/" in k))), ctx
    if "snapshot(2)" not in after or "snapshot([1, 5])" not in after:
        return ("approved-change-not-applied", after[-300:]), ctx
    # everything outside the two fixed arguments must be byte-identical: in particular no import may be added
    norm = after.replace("snapshot(2)", "snapshot(3)").replace("snapshot([1, 5])", "snapshot([1])")
    if norm != src:
        import difflib

        return ("text-outside-snapshot-arguments-changed", "".join(difflib.unified_diff(src.splitlines(True), norm.splitlines(True), n=1))[:900]), ctx
    return None, ctx


def _plugin_cases(tier):
    cases = []
    for shape in IMPORTED:
        for which in (["hasrepr"], ["ext"], ["hasrepr", "ext"]):
            for F in (["fix"], list(CATS), ["fix", "trim"]):
                cases.append({"kind": "imported", "shape": shape, "names": which, "F": F})
    for shape in IMPORT_SHAPES:
        for site in ("hasrepr", "ext"):
            cases.append({"kind": "import", "shape": shape, "names": [site, "fixl"], "F": ["create", "fix"]})
        cases.append({"kind": "import", "shape": shape, "names": ["hasrepr", "ext"], "F": ["create"]})
    for first in ("hasrepr", "ext"):
        for second in ("fixl", "create", "none", "fixuni"):
            for order in ("ab", "ba"):
                cases.append({"kind": "multifile", "names": [first, second], "order": order, "F": ["create", "fix"]})
    pairs = [["fixl", "create"], ["fixml", "trimin"], ["upd", "fixuni"], ["fixstr", "none"], ["fixd", "fixt1"], ["create", "trimb"]]
    for nl in ("\n", "\r\n", "\r"):
        for p in pairs:
            for st in ("plain", "uni", "comment"):
                cases.append({"kind": "newline", "nl": nl, "names": p, "style": st, "F": list(CATS)})
    # a format-command that fails in different ways: the result must be the unformatted but complete edit
    for mode in ("exit1-empty", "exit1-prefix", "exit0-garbage", "exit3-full", "exit1-stderr-only"):
        for p in pairs[:3]:
            cases.append({"kind": "fmtfail", "mode": mode, "names": p, "F": ["create", "fix", "trim"]})
    # a process whose locale encoding is not UTF-8 (cold interpreter, LC_ALL=C without UTF-8 mode): files are UTF-8 regardless
    for p in pairs[:4]:
        for F in (list(CATS), ["create", "fix"]):
            cases.append({"kind": "locale", "names": p, "style": "uni", "F": F})
    # source encodings python accepts: UTF-8 with a byte order mark, PEP 263 coding cookies
    for enc in ("bom", "latin-1", "cp1252"):
        for p in pairs:
            for st in ("plain", "comment") if enc == "bom" else ("plain",):
                for F in (list(CATS), ["fix"], []):
                    cases.append({"kind": "encoding", "enc": enc, "names": p, "style": st, "F": F})
    # the test file is reached through a symbolic link (a linked file, a linked directory given on the command line)
    for link in ("file", "dir", "dir-cwd-inside"):
        for p in pairs + [["create", "fixs", "trimb", "upd"], ["fixl", "create", "create"], ["trimin", "fixd", "create"]]:
            for F in (list(CATS), ["create", "fix"]):
                cases.append({"kind": "symlink", "link": link, "names": p, "style": "plain", "F": F})
    for enc in ("latin-1", "cp1252", "ascii"):
        for p in (["unencfix", "fixs"], ["fixl", "unenccreate"], ["unencfix"], ["create", "unenccreate", "trimb"]):
            for F in (list(CATS), ["create", "fix"]):
                cases.append({"kind": "unenc", "enc": enc, "names": p, "style": "plain", "F": F})
    for p in itertools.product(list(SITES)[:: (3 if tier == "quick" else 1)], repeat=2):
        cases.append({"kind": "clean", "names": list(p), "F": list(CATS)})
        cases.append({"kind": "clean", "names": list(p), "F": ["fix"]})
        cases.append({"kind": "fmtcmd", "names": list(p), "F": ["create", "fix", "trim"]})
    return cases


def _plugin_file(c):
    kind = c["kind"]
    if kind == "import":
        tests = [([n], "plain") for n in c["names"]] + [(["none"], "uni")]
        return build_file(tests, header=IMPORT_SHAPES[c["shape"]], needs=["outsource"] if "ext" in c["names"] else [])
    if kind == "newline":
        src = build_file([(c["names"], c["style"]), (["none"], "plain")])
        return src.replace("\n", c["nl"])
    if kind == "fmtfail":
        return build_file([(c["names"], "plain"), (["none"], "comment")])
    if kind == "symlink":
        return build_file([(c["names"], c["style"]), (["none"], "comment")])
    if kind == "locale":
        return build_file([(c["names"], c["style"]), (["none"], "comment")])
    if kind == "unenc":
        src = build_file([(c["names"], c["style"]), (["none"], "plain")]).replace("\U0001f40d", "~")
        note = "caf\xe9 \xfc\xdf" if c["enc"] != "ascii" else "plain"
        if c["enc"] == "ascii":
            src = src.encode("ascii", "backslashreplace").decode()
        return "# -*- coding: %s -*-\n# %s\n" % (c["enc"], note) + src.replace("def test_0", "NOTE = '%s'\n\n\ndef test_0" % note, 1)
    if kind == "encoding":
        src = build_file([(c["names"], c["style"]), (["none"], "plain")])
        if c["enc"] != "bom":
            src = src.replace("\U0001f40d", "\xa4")  # single-byte encodings cannot hold astral characters
            src = "# -*- coding: %s -*-\n# caf\xe9 \xfc\xdf\n" % c["enc"] + src.replace("def test_0", "NOTE = 'na\xefve \xa9'\n\n\ndef test_0", 1)
        return src
    src = build_file([(c["names"], "plain"), ([c["names"][0]], "plain")])
    if kind == "clean":
        import black

        src = black.format_str(src, mode=black.FileMode())
    return src


def _judge_multifile(c):
    """Two files rewritten in one session: only the file whose new code needs a name may gain the import."""
    from ..drivers import plugin

    fa, fb = ("test_a.py", "test_b.py") if c["order"] == "ab" else ("test_b.py", "test_a.py")
    files = {fa: build_file([([c["names"][0]], "plain")], needs=["outsource"] if c["names"][0] == "ext" else []),
             fb: build_file([([c["names"][1]], "uni")])}
    d = plugin.mk_project(dict(files, **{"pyproject.toml": ""}))
    try:
        r = plugin.session(d, ["--inline-snapshot=" + ",".join(c["F"])])
        after = plugin.listing(d, text=True)
    finally:
        plugin.cleanup()
    ctx = {"src": files[fb], "after": after.get(fb, "")}
    if plugin.internal_error(r["out"]) or r["rc"] not in (0, 1):
        return ("internal-error", "rc=%s %s" % (r["rc"], r["out"][-700:])), ctx
    v = check_file(files[fb], after[fb], [SITES[c["names"][1]][3]], c["F"], False)
    if v is None:
        allow = ["HasRepr"] if c["names"][0] == "hasrepr" else ["external"]
        v = check_file(files[fa], after[fa], [PLUGIN_SITES[c["names"][0]][3]], c["F"], False, allow_imports=allow)
        ctx = {"src": files[fa], "after": after[fa]}
        if v is None and ("from inline_snapshot import %s" % allow[0]) not in after[fa]:
            v = ("import-not-inserted-exactly-once", "missing in the file that needs it")
    ctx["changed"] = True
    return v, ctx


def _judge_plugin(c):
    from ..drivers import plugin

    if c["kind"] == "multifile":
        return _judge_multifile(c)
    if c["kind"] == "imported":
        return _judge_imported(c)

    src = _plugin_file(c)
    pp = '[tool.inline-snapshot]\nformat-command="cat"\n' if c["kind"] == "fmtcmd" else ""
    extra = {}
    if c["kind"] == "fmtfail":
        import sys

        pp = '[tool.inline-snapshot]\nformat-command="%s fmt_fail.py %s"\n' % (sys.executable, c["mode"])
        extra["fmt_fail.py"] = ("import sys\nmode = sys.argv[1]\ntext = sys.stdin.read()\n"
                                "if mode == 'exit1-empty':\n    sys.stderr.write('error: cannot format\\n'); sys.exit(1)\n"
                                "if mode == 'exit1-stderr-only':\n    sys.stderr.write(text); sys.exit(1)\n"
                                "if mode == 'exit1-prefix':\n    sys.stdout.write(''.join(text.splitlines(True)[:3])); sys.exit(1)\n"
                                "if mode == 'exit0-garbage':\n    sys.stdout.write('def (:\\n'); sys.exit(0)\n"
                                "if mode == 'exit3-full':\n    sys.stdout.write(text); sys.exit(3)\n")
    codec = {"bom": "utf-8-sig", "latin-1": "latin-1", "cp1252": "cp1252", "ascii": "ascii"}[c["enc"]] if c["kind"] in ("encoding", "unenc") else "utf-8"
    if c["kind"] == "symlink":
        import os

        real = "shared/impl_something.py" if c["link"] == "file" else "shared/tests/test_something.py"
        d = plugin.mk_project({real: src, "pyproject.toml": pp})
        if c["link"] == "file":
            os.symlink(os.path.join("shared", "impl_something.py"), os.path.join(d, "test_something.py"))
            cwd, args = d, []
        else:
            os.symlink(os.path.join("shared", "tests"), os.path.join(d, "tests"))
            cwd, args = (d, ["tests"]) if c["link"] == "dir" else (os.path.join(d, "tests"), [])
        try:
            r = plugin.session(cwd, ["--inline-snapshot=" + ",".join(c["F"])] + args)
            full_listing = plugin.listing(d)
            raw = full_listing[real]
        finally:
            plugin.cleanup()
        ctx = {"src": src, "after": raw.decode("utf-8", "replace"), "listing": full_listing}
        if plugin.internal_error(r["out"]) or r["rc"] not in (0, 1):
            return ("internal-error", "rc=%s %s" % (r["rc"], r["out"][-700:])), ctx
        stray = [k for k in full_listing if k.endswith(".py") and k not in (real, "test_something.py")]
        if stray:
            return ("other-python-file-written", str(stray)), ctx
        cats = [SITES[n][3] for n in c["names"]] + [None]
        import black

        v = check_file(src, ctx["after"], cats, c["F"], black.format_str(src, mode=black.FileMode()) == src)
        return v, ctx
    d = plugin.mk_project(dict({"test_something.py": src.encode(codec), "pyproject.toml": pp}, **extra))
    try:
        if c["kind"] == "locale":
            r = plugin.cold_session(d, ["--inline-snapshot=" + ",".join(c["F"])],
                                    env={"LC_ALL": "C", "LANG": "C", "PYTHONUTF8": "0", "PYTHONCOERCECLOCALE": "0", "PYTHONIOENCODING": "utf-8"})
        else:
            r = plugin.session(d, ["--inline-snapshot=" + ",".join(c["F"])])
        full_listing = plugin.listing(d)
        raw = full_listing["test_something.py"]
    finally:
        plugin.cleanup()
    try:
        after = raw.decode(codec)
    except UnicodeDecodeError as e:
        return ("file-no-longer-in-its-declared-encoding", "%s: %s" % (codec, e)), {"src": src, "after": repr(raw[-300:])}
    ctx = {"src": src, "after": after, "listing": full_listing}
    if c["kind"] == "encoding" and c["enc"] == "bom" and not raw.startswith(b"\xef\xbb\xbf"):
        return ("text-outside-snapshot-arguments-changed", "the byte order mark at the start of the file is gone"), ctx
    if c["kind"] == "encoding" and not c["F"] and raw != src.encode(codec):
        return ("text-outside-snapshot-arguments-changed", "file changed without approved category"), ctx
    if c["kind"] == "unenc" and (plugin.internal_error(r["out"]) or r["rc"] not in (0, 1)):
        # the session could not write the value (whether it may fail is C18's business); this property: the file is intact
        if raw != src.encode(codec):
            return ("file-damaged-by-a-failed-rewrite", "rc=%s; the file is neither its old content nor a complete edit\n%s" % (r["rc"], r["out"][-500:])), ctx
        return None, ctx
    if plugin.internal_error(r["out"]) or r["rc"] not in (0, 1):
        return ("internal-error", "rc=%s %s" % (r["rc"], r["out"][-700:])), ctx
    import black

    try:
        clean = black.format_str(src, mode=black.FileMode()) == src
    except Exception:
        clean = False
    formatted = clean or c["kind"] == "fmtcmd"
    if c["kind"] == "clean" and not clean:
        return ("harness", "file meant to be clean is not"), ctx
    cats = []
    if c["kind"] == "import":
        cats = [(SITES.get(n) or PLUGIN_SITES[n])[3] for n in c["names"]] + [None]
    elif c["kind"] in ("newline", "encoding", "locale", "fmtfail", "unenc"):
        cats = [(SITES.get(n) or PLUGIN_SITES[n])[3] for n in c["names"]] + [None]
    else:
        cats = [SITES[n][3] for n in c["names"]] + [SITES[c["names"][0]][3]]
    allow = []
    if "HasRepr(" in after:
        allow.append("HasRepr")
    if "external(" in after and "ext" in c.get("names", []):
        allow.append("external")
    v = check_file(src, after, cats, c["F"], formatted and c["kind"] != "fmtcmd" or c["kind"] == "fmtcmd", allow_imports=allow)
    if v is None and c["kind"] == "import":
        for name in allow:
            stmt = "from inline_snapshot import %s" % name
            n_top = sum(1 for ln in after.splitlines() if ln == stmt)  # module-level statements added by the rewrite
            if n_top != 1:
                v = ("import-not-inserted-exactly-once", "%s occurs %d times at module level" % (stmt, n_top))
        if v is None:
            from ..drivers.inline import reexec

            # the rewritten module must at least import (names resolvable)
            try:
                compile(after, "x", "exec")
            except SyntaxError as e:
                v = ("result-not-valid-python", str(e))
            if v is None and "create" in c["F"]:
                # and run: a second session with inline-snapshot disabled must pass (every needed name is bound at module level)
                store = {k: b for k, b in ctx.get("listing", {}).items() if k.startswith(".inline-snapshot/")}
                d2 = plugin.mk_project(dict({"test_something.py": after, "pyproject.toml": pp}, **store))
                try:
                    r2 = plugin.session(d2, ["--inline-snapshot=disable"])
                finally:
                    plugin.cleanup()
                if r2["rc"] != 0 and "NameError" in r2["out"]:
                    v = ("generated-name-not-importable", r2["out"][-500:])
    ctx["changed"] = after != src
    return v, ctx


def build(tier, seed):
    tasks = []
    allcs = _inline_cases(tier)
    for cs in ([c for c in allcs if not c.get("weird")], [c for c in allcs if c.get("weird")]):
        for F in _fsets(tier):
            for i in range(0, len(cs), 20):
                tasks.append({"inline": cs[i : i + 20], "F": F})
    pc = _plugin_cases(tier)
    for i in range(0, len(pc), 6):
        tasks.append({"plugin": pc[i : i + 6]})
    return tasks


def run_case(case):
    if "kind" in case:
        v, ctx = _judge_plugin(case)
        if v is None:
            return []
        out = {"case": case, "what": v[0], "detail": v[1] + "\n--- before ---\n" + ctx["src"][-900:] + "\n--- after ---\n" + ctx.get("after", "")[-900:]}
        s = _residual(case, v, ctx)
        if s:
            out["sig"] = s
        return [out]
    v, ctx = _judge_inline([case], case["F"])
    if v[0] is None:
        return []
    return [{"case": case, "what": v[0][0], "detail": v[0][1] + "\n--- before ---\n" + ctx["src"][-900:] + "\n--- after ---\n" + ctx.get("after", "")[-900:]}]


def _residual(case, v, ctx):
    """Known finding 'newline-normalised': CRLF / CR files come back with LF. Residual: after normalising the
    *before* text to LF the property's own oracle must pass, otherwise it is a different violation."""
    if case.get("kind") == "newline" and case.get("nl") in ("\r\n", "\r") and v[0] == "text-outside-snapshot-arguments-changed":
        before = ctx["src"].replace(case["nl"], "\n")
        cats = [SITES[n][3] for n in case["names"]] + [None]
        if check_file(before, ctx["after"], cats, case["F"], False) is None:
            return "newline-normalised"
    return None


def run_task(task):
    out = {"n": 0, "nontrivial": [], "outcomes": {}, "violations": [], "samples": []}
    if "inline" in task:
        F = task["F"]
        cases = [dict(c, F=F) for c in task["inline"]]
        v, ctx = _judge_inline(cases, F)
        for c in cases:
            out["n"] += 1
            vv = v[0]
            if vv is not None:
                single = run_case(c)
                if single:
                    out["violations"] += single
                    lab = "viol:" + single[0]["what"]
                    out["outcomes"][lab] = out["outcomes"].get(lab, 0) + 1
                    continue
            if ctx.get("changed"):
                out["nontrivial"].append(repr((c["names"], c["style"], F)))
            lab = "ok:inline:" + c["style"]
            out["outcomes"][lab] = out["outcomes"].get(lab, 0) + 1
        out["samples"].append({"sites": cases[0]["names"], "style": cases[0]["style"], "approved": F, "line": line(cases[0]["names"], cases[0]["style"])})
        return out
    for c in task["plugin"]:
        out["n"] += 1
        vs = run_case(c)
        if vs:
            out["violations"] += vs
            lab = "viol:" + vs[0]["what"]
        else:
            out["nontrivial"].append(repr(sorted(c.items())))
            lab = "ok:plugin:" + c["kind"]
        out["outcomes"][lab] = out["outcomes"].get(lab, 0) + 1
    out["samples"].append({"plugin_case": task["plugin"][0]})
    return out
