"""C04 - nothing is written without approval; exactly the approved categories apply.
Configuration-space exploration, every point a real pytest session: flag sources (CLI, env var, pyproject
default-flags / default-flags-tui, shortcuts) x category subsets x modes x review answer vectors x environments
(CI variables, PYCHARM_HOSTED, xdist, tty) x xfail marks.  Oracles: an independent flag-resolution model gives
(usage error?, approved set A); the resulting directory must equal that of the CLI-only session
--inline-snapshot=A, carry exactly the per-category markers of A, and be byte-identical when A is empty."""
from __future__ import annotations

import hashlib
import itertools

from ..models import flags as FM

ID = "C04"
LEVEL = "model_checking"
RULE = ("configurations ordered by number of deviations from 'category flags on the CLI only': 16 subsets on the CLI; the same "
        "with report / short-report / review x every y/n answer vector; through INLINE_SNAPSHOT_DEFAULT_FLAGS; through "
        "default-flags; CLI x env x pyproject precedence triples over {absent, create, fix, trim}; default and user shortcuts; "
        "tty x default-flags-tui; each CI variable (+PYCHARM_HOSTED); xdist -n 2 / -n 0; xfail marks; usage errors. Program: one "
        "pending change per category + an outsourced value + an unreferenced persisted external + a referenced one (thorough: "
        "3 more programs). states = distinct resulting directory states, transitions = sessions, validated = sessions whose "
        "result equals both the model prediction and the CLI-only reference session"
        "; xfail marks also stacked and inherited + own; CI variables with the values CI systems set")
ASSUMPTIONS = ["tty is emulated with FORCE_COLOR (rich Console.is_terminal)", "-new files of outsource() are not persisted externals and are ignored in the comparison",
               "pytest 9.1.1 / CPython 3.12 defaults: default-flags=['report'], default-flags-tui=['create','review']"]
TASK_TIMEOUT = 900
CATS = FM.CATS
SUBSETS = [list(c) for n in range(5) for c in itertools.combinations(CATS, n)]


def _h(s):
    return hashlib.sha256(s.encode()).hexdigest()


UNUSED = "unused-data"
KEEP = "keep-data"

PROGRAMS = {
    "canonical": (
        "from inline_snapshot import snapshot, outsource, external\n\n\n"
        "def test_create():\n    assert 1 == snapshot()\n\n\n"
        "def test_fix():\n    assert 2 == snapshot(3)\n\n\n"
        "def test_trim():\n    assert 4 <= snapshot(9)\n\n\n"
        "def test_update():\n    assert 5 == snapshot(2+3)\n\n\n"
        "def test_ext_create():\n    assert outsource('new-data') == snapshot()\n\n\n"
        "def test_ext_keep():\n    assert outsource('%s') == snapshot(external('%s*.txt'))\n" % (KEEP, _h(KEEP)[:12])
    ),
    "container": (
        "from inline_snapshot import snapshot, outsource, external\n\n\n"
        "def test_all():\n    s = snapshot({'fix': 3, 'trim': [4, 9], 'update': 2+3, 'unused': 0, 'keep': external('%s*.txt')})\n"
        "    _ok = s['create'] == 1\n    _ok = s['fix'] == 2\n    _ok = 4 in s['trim']\n    _ok = s['update'] == 5\n"
        "    _ok = s['keep'] == outsource('%s')\n" % (_h(KEEP)[:12], KEEP)
    ),
    "twofiles": None,
    "nopending": (
        "from inline_snapshot import snapshot, outsource, external\n\n\n"
        "def test_ok():\n    assert 1 == snapshot(1)\n    assert 4 <= snapshot(4)\n    assert 5 in snapshot([5])\n\n\n"
        "def test_ext_keep():\n    assert outsource('%s') == snapshot(external('%s*.txt'))\n" % (KEEP, _h(KEEP)[:12])
    ),
    "onlytrim": (
        "from inline_snapshot import snapshot, outsource, external\n\n\n"
        "def test_trim():\n    assert 4 <= snapshot(9)\n\n\n"
        "def test_ext_keep():\n    assert outsource('%s') == snapshot(external('%s*.txt'))\n" % (KEEP, _h(KEEP)[:12])
    ),
}


PROGRAMS["nopending-lateimport"] = "import sys\nsys.path.insert(0, '.')\n" + PROGRAMS["nopending"]
PROGRAMS["lateimport"] = "import sys\nsys.path.insert(0, '.')\n" + PROGRAMS["canonical"]  # the inline_snapshot import follows a statement


def project(prog, cfg):
    files = {}
    src = PROGRAMS[prog]
    if prog == "twofiles":
        c = PROGRAMS["canonical"].split("\n\n\n")
        files["test_a.py"] = "\n\n\n".join(c[:3]) + "\n"
        files["test_b.py"] = c[0] + "\n\n\n" + "\n\n\n".join(c[3:])
    else:
        files["test_something.py"] = src
    xf = cfg.get("xfail")
    if xf is not None:
        how = cfg.get("xfail_at", "function")
        for k in list(files):
            if how == "function":
                files[k] = "import pytest\n" + files[k].replace("def test_", "@pytest.mark.xfail%s\ndef test_" % xf)
            else:
                head, _, rest = files[k].partition("\n\n\n")
                import re as _re

                rest = _re.sub(r"^def (test_\w+)\(\):", r"def \1(self):", rest, flags=_re.M)
                body = "\n".join(("    " + l if l else l) for l in rest.replace("def test_create():", "def test_create(self):").replace(
                    "def test_fix():", "def test_fix(self):").replace("def test_trim():", "def test_trim(self):").replace(
                    "def test_update():", "def test_update(self):").replace("def test_ext_create():", "def test_ext_create(self):").replace(
                    "def test_ext_keep():", "def test_ext_keep(self):").split("\n"))
                if cfg.get("xfail_fn") is not None:
                    body = body.replace("    def test_", "    @pytest.mark.xfail%s\n    def test_" % cfg["xfail_fn"])
                mark = "@pytest.mark.xfail%s\n" % xf if "class" in how else ""
                pm = "pytestmark = pytest.mark.xfail%s\n" % xf if "module" in how else ""
                files[k] = "import pytest\n" + head + "\n" + pm + "\n\n" + mark + "class TestX:\n" + body
    dyn = cfg.get("xfail_dynamic")
    if dyn == "hook":
        # a list of known failures kept in conftest.py: the mark is attached when the test is set up
        files["conftest.py"] = "import pytest\n\n\ndef pytest_runtest_setup(item):\n    item.add_marker(pytest.mark.xfail(reason='known failure'))\n"
    elif dyn == "collect":
        files["conftest.py"] = "import pytest\n\n\ndef pytest_collection_modifyitems(items):\n    for item in items:\n        item.add_marker(pytest.mark.xfail(reason='known failure'))\n"
    elif dyn == "fixture":
        files["conftest.py"] = ("import pytest\n\n\n@pytest.fixture(autouse=True, scope='module')\ndef known_failures(request):\n"
                                "    request.applymarker(pytest.mark.xfail(reason='known failure'))\n")
    pp = []
    tool = []
    if cfg.get("default") is not None:
        tool.append("default-flags = %r" % list(cfg["default"]))
    if cfg.get("tui") is not None:
        tool.append("default-flags-tui = %r" % list(cfg["tui"]))
    if cfg.get("skip_updates"):
        tool.append("skip-snapshot-updates-for-now = true")
    if tool:
        pp.append("[tool.inline-snapshot]\n" + "\n".join(tool) + "\n")
    if cfg.get("shortcuts") is not None:
        pp.append("[tool.inline-snapshot.shortcuts]\n" + "\n".join("%s = %r" % (k, v) for k, v in cfg["shortcuts"].items()) + "\n")
    files["pyproject.toml"] = "\n".join(pp).replace("'", '"').replace("True", "true")
    files[".inline-snapshot/external/%s.txt" % _h(UNUSED)] = UNUSED
    files[".inline-snapshot/external/%s.txt" % _h(KEEP)] = KEEP
    files[".inline-snapshot/external/.gitignore"] = "# ignore all snapshots which are not referred in the source\n*-new.*\n"
    return files


def argv(cfg):
    a = []
    if cfg.get("cli") is not None:
        a.append("--inline-snapshot=" + ",".join(cfg["cli"]))
    if cfg.get("shortcut"):
        a.append("--" + cfg["shortcut"])
    if cfg.get("xdist") is not None:
        a += ["-n", cfg["xdist"]]
    return a


def environ(cfg):
    e = {}
    if cfg.get("env") is not None:
        e["INLINE_SNAPSHOT_DEFAULT_FLAGS"] = ",".join(cfg["env"])
    if cfg.get("tty"):
        e["FORCE_COLOR"] = "true"
    if cfg.get("ci"):
        e[cfg["ci"]] = cfg.get("ci_value", "true")
    if cfg.get("pycharm"):
        e["PYCHARM_HOSTED"] = "1"
    return e


def xfail_live(cfg):
    """pytest xfails a test when any of its xfail marks (own or inherited) has no condition or a true one."""
    marks = []
    if cfg.get("xfail_dynamic"):
        return True
    if cfg.get("xfail") is not None:
        marks += cfg["xfail"].split("\n@pytest.mark.xfail")
    if cfg.get("xfail_fn") is not None:
        marks += cfg["xfail_fn"].split("\n@pytest.mark.xfail")
    return any(not m.startswith("(False") for m in marks)


def pending(prog, cfg):
    if xfail_live(cfg):
        return ()
    if prog == "onlytrim":
        return ("trim",)
    if prog.startswith("nopending"):
        return ()
    return CATS


def relevant(listing):
    """Test files and persisted externals (not -new files, not .gitignore, not pyproject)."""
    out = {}
    for k, v in listing.items():
        base = k.rsplit("/", 1)[-1]
        if k.endswith(".py") or (k.startswith(".inline-snapshot/external/") and "-new." not in base and base != ".gitignore"):
            out[k] = v
    return out


def markers(prog, files):
    """Which categories have visibly been applied in the resulting test files (independent of any expected text)."""
    t = "\n".join(v for k, v in sorted(files.items()) if k.endswith(".py"))
    t2 = t.replace(" ", "").replace('"', "'")
    if prog in ("canonical", "twofiles", "lateimport"):
        return {
            "create": "assert1==snapshot(1)" in t2,
            "fix": "assert2==snapshot(2)" in t2,
            "trim": "assert4<=snapshot(4)" in t2,
            "update": "assert5==snapshot(5)" in t2,
        }
    if prog == "container":
        return {"create": "'create':1" in t2, "fix": "'fix':2" in t2, "trim": "'trim':[4]" in t2 and "'unused'" not in t2,
                "update": "'update':5" in t2}
    if prog == "onlytrim":
        return {"trim": "assert4<=snapshot(4)" in t2}
    if prog.startswith("nopending"):
        return {}


def run_session(prog, cfg):
    from ..drivers import plugin

    files = project(prog, cfg)
    d = plugin.mk_project(files)
    try:
        ans = cfg.get("answers")
        stdin = None if ans is None else ("\n".join(ans) + "\n").encode() + b"n\n" * 6
        r = plugin.session(d, argv(cfg), stdin=stdin, env=environ(cfg), xdist=cfg.get("xdist") is not None, timeout=240)
        after = plugin.listing(d, text=True)
    finally:
        plugin.cleanup()
    before = {k: v for k, v in files.items()}
    return r, before, after


def judge(prog, cfg, ref_states):
    from ..drivers import plugin

    m = FM.resolve(cfg, pending(prog, cfg))
    r, before, after = run_session(prog, cfg)
    rb, ra = relevant(before), relevant(after)
    viol = []
    case = {"prog": prog, "cfg": cfg}

    def V(what, detail):
        viol.append({"case": case, "what": what,
                     "detail": "%s | model: %s | argv=%s env=%s | rc=%s | output tail: %s" % (
                         detail, {k: (sorted(v) if isinstance(v, set) else v) for k, v in m.items()}, argv(cfg), environ(cfg), r["rc"], r["out"][-500:])})

    statekey = _h(repr(sorted(ra.items())))
    if m["error"]:
        if r["rc"] != 4:
            V("usage-error-expected", "expected exit status 4")
        if ra != rb:
            V("files-changed-on-usage-error", _delta(rb, ra))
        return viol, statekey, m
    if plugin.internal_error(r["out"]) or r["rc"] not in (0, 1):
        V("internal-error", "")
        return viol, statekey, m
    A = m["approved"]
    if (cfg.get("xfail") is not None or cfg.get("xfail_dynamic")) and not pending(prog, cfg) and "trim" in m["flags"]:
        # no file takes part in the session, so an approved trim may remove every stored external
        # (documented hazard of trimming on a partial run); the test files must still be untouched
        ra = {k: v for k, v in ra.items() if k.endswith(".py")}
        rb = {k: v for k, v in rb.items() if k.endswith(".py")}
    if not A and prog.startswith("nopending") and m["active"] and "trim" in m["flags"] and "short-report" not in m["flags"]:
        # trim is a flag of this session: the unreferenced external may go, nothing else may change
        u = ".inline-snapshot/external/%s.txt" % _h(UNUSED)
        ra = {k: v for k, v in ra.items() if k != u}
        rb = {k: v for k, v in rb.items() if k != u}
    if not A:
        if ra != rb:
            V("written-without-approval", _delta(rb, ra))
        return viol, statekey, m
    mk = markers(prog, ra)
    for c, present in mk.items():
        if present and c not in A:
            V("unapproved-category-applied", "category %s was applied" % c)
        if not present and c in A and c in pending(prog, cfg):
            V("approved-category-not-applied", "category %s was not applied" % c)
    unused = ".inline-snapshot/external/%s.txt" % _h(UNUSED)
    keep = ".inline-snapshot/external/%s.txt" % _h(KEEP)
    if keep not in ra or ra[keep] != KEEP:
        V("referenced-external-lost", keep)
    if prog.startswith("nopending"):
        trim_ok = m["active"] and "trim" in m["flags"] and "short-report" not in m["flags"]
        if unused not in ra and not trim_ok:
            V("unused-external-removed-without-trim", unused)
    elif (unused in ra) != ("trim" not in A):
        V("unused-external-" + ("removed-without-trim" if unused not in ra else "kept-despite-trim"), unused)
    ref = ref_states.get("+".join(sorted(A)))
    if ref is not None and prog == "canonical" and not cfg.get("xfail") and not cfg.get("xfail_dynamic") and ref != ra:
        V("differs-from-cli-only-session", _delta(ref, ra))
    if not viol:
        secs = set(plugin.report_sections(r["out"]))
        if "short-report" not in m["flags"] and secs != set(m["shown"]) & set(pending(prog, cfg)):
            V("report-sections-differ", "shown %s, expected %s" % (sorted(secs), sorted(m["shown"])))
    return viol, statekey, m


def _delta(a, b):
    out = []
    for k in sorted(set(a) | set(b)):
        if a.get(k) != b.get(k):
            out.append("%s: %r -> %r" % (k, (a.get(k) or "")[-160:], (b.get(k) or "")[-160:]))
    return "; ".join(out)[:900]


# ------------------------------------------------------------------ configuration space

CI_VALUES = {"CI": ("1", "True", "woodpecker"), "BUILD_ID": ("4711", "2024-01-01_12-00-00"), "BUILD_NUMBER": ("17",), "JENKINS_URL": ("https://ci.example.org/jenkins/",),
             "HUDSON_URL": ("http://hudson.example.org/",), "TEAMCITY_VERSION": ("2023.11.1 (build 147412)",), "bamboo.buildKey": ("PROJ-PLAN-JOB1",),
             "BUILDKITE": ("true",), "CIRCLECI": ("true",), "CONTINUOUS_INTEGRATION": ("true",), "GITHUB_ACTIONS": ("true",), "TRAVIS": ("true",)}
CI_VARS = ("CI", "bamboo.buildKey", "BUILD_ID", "BUILD_NUMBER", "BUILDKITE", "CIRCLECI", "CONTINUOUS_INTEGRATION",
           "GITHUB_ACTIONS", "HUDSON_URL", "JENKINS_URL", "TEAMCITY_VERSION", "TRAVIS")


def configs(tier):
    cf = []
    for s in SUBSETS:                                         # 0 deviations: CLI only
        cf.append({"cli": s})
    for s in SUBSETS:                                         # modes
        cf.append({"cli": s + ["report"]})
        cf.append({"cli": s + ["short-report"]})
        k = 4 - len(s)
        for vec in itertools.product("yn", repeat=k):
            cf.append({"cli": s + ["review"], "answers": "".join(vec)})
    cf.append({"cli": ["disable"]})
    cf.append({"cli": []})
    cf.append({})
    for s in SUBSETS:                                         # other sources
        if s:
            cf.append({"env": s})
        cf.append({"default": s})
    opts = (None, ["create"], ["fix"], ["trim"])
    for a in opts + ([],):                                    # precedence CLI > env > pyproject
        for b in opts:
            for c in opts:
                cf.append({"cli": a, "env": b, "default": c})
    cf += [{"shortcut": "fix"}, {"shortcut": "review", "answers": "yyyy"}, {"shortcut": "review", "answers": "nyny"},
           {"shortcut": "strim", "shortcuts": {"strim": ["trim", "update"]}},
           {"shortcut": "fix", "shortcuts": {"strim": ["trim", "update"], "fix": ["fix"]}},
           {"shortcut": "all", "shortcuts": {"all": ["create", "fix", "trim", "update"]}, "env": ["report"]}]
    for tui in (None, ["create"], ["trim", "review"], ["report"], []):  # tty
        for ans in ("nyn", "yyy", "nnn"):
            cf.append({"tty": True, "tui": tui, "answers": ans})
        cf.append({"tty": False, "tui": tui, "default": ["fix"] if tui else None})
    cf.append({"tty": True, "cli": ["fix"], "answers": "yyy"})
    cf.append({"tty": True, "env": ["trim"], "answers": "yyy"})
    for v in CI_VARS:                                         # CI
        for val in CI_VALUES.get(v, ("1",)):                  # (values these variables really carry on the systems that set them)
            cf.append({"ci": v, "ci_value": val, "cli": ["create", "fix", "trim", "update"]})
        cf.append({"ci": v, "cli": ["create", "fix", "trim", "update"]})
        cf.append({"ci": v, "pycharm": True, "cli": ["create"]})
    cf.append({"ci": "CI", "cli": ["review"], "answers": "yyyy"})
    cf.append({"ci": "CI", "env": ["fix"]})
    cf.append({"ci": "GITHUB_ACTIONS"})
    cf += [{"xdist": "2"}, {"xdist": "2", "env": ["create", "fix"]}, {"xdist": "2", "default": ["trim"]}, {"xdist": "2", "cli": ["create"]},
           {"xdist": "2", "cli": ["disable"]}, {"xdist": "0", "cli": ["create"]}, {"xdist": "0", "cli": ["trim", "update"]}, {"xdist": "0"}]
    for xf in ("", "()", "(strict=True)", "(reason='x')", "(False, reason='x')", "(True, reason='x')"):  # xfail
        for s in (list(CATS), ["create", "fix"], ["review"], ["trim"]):
            cf.append({"xfail": xf, "cli": s, "answers": "yyyy" if s == ["review"] else None})
    F_, T_ = "(False, reason='x')", ""
    stacks = [F_ + "\n@pytest.mark.xfail" + T_, T_ + "\n@pytest.mark.xfail" + F_, F_ + "\n@pytest.mark.xfail(False, reason='y')",
              "(strict=True)\n@pytest.mark.xfail" + F_, F_ + "\n@pytest.mark.xfail" + F_ + "\n@pytest.mark.xfail(reason='z')"]
    for xf in stacks:                                         # several xfail marks on one test: any live mark makes it xfail
        for s in (list(CATS), ["create", "fix"], ["review"]):
            cf.append({"xfail": xf, "cli": s, "answers": "yyyy" if s == ["review"] else None})
    for dyn in ("hook", "collect", "fixture"):                # marks attached at run time
        for s in (list(CATS), ["create", "fix"], ["report", "fix"], ["review"]):
            cf.append({"xfail_dynamic": dyn, "cli": s, "answers": "yyyy" if s == ["review"] else None})
    for how in ("class", "module", "classmodule"):            # an inherited mark and an own mark
        for at, fn in ((T_, F_), (F_, T_), (F_, F_), (T_, T_)):
            for s in (list(CATS), ["report", "fix"]):
                cf.append({"xfail": at, "xfail_at": how, "xfail_fn": fn, "cli": s})
    for how in ("class", "module", "classmodule"):            # inherited xfail marks
        for s in (list(CATS), ["review"], ["report", "fix"]):
            cf.append({"xfail": "", "xfail_at": how, "cli": s, "answers": "yyyy" if s == ["review"] else None})
    # skip-snapshot-updates-for-now: updates are neither reported nor offered in review unless update is a flag
    for ans in ("yyyy", "nyyy", "yyyn", "nnnn"):
        cf.append({"skip_updates": True, "cli": ["review"], "answers": ans})
    cf += [{"skip_updates": True, "cli": ["review", "update"], "answers": a} for a in ("nnn", "yyy")]
    cf += [{"skip_updates": True, "cli": s} for s in (["report"], ["update"], list(CATS), ["create"], ["report", "update"], ["create", "fix", "trim"])]
    cf += [{"skip_updates": True, "env": ["update"]}, {"skip_updates": True, "default": ["update", "report"]}, {"skip_updates": True},
           {"skip_updates": True, "tty": True, "answers": "yyy"}, {"skip_updates": True, "shortcut": "review", "answers": "yyyy"}]
    cf += [{"cli": ["bogus"]}, {"cli": ["disable", "fix"]}, {"env": ["disable", "fix"]}, {"default": ["creat"]}, {"env": ["Fix"]},
           {"cli": ["review", "disable"]}, {"cli": ["fix", ""]}, {"cli": ["", "trim"]}]
    out = []
    seen = set()
    for c in cf:
        c = {k: v for k, v in c.items() if v is not None}
        key = repr(sorted(c.items()))
        if key not in seen:
            seen.add(key)
            out.append(c)
    return out


def bounds(tier):
    return {"configurations": len(configs(tier)), "programs": _progs(tier)}


def _progs(tier):
    return ["canonical", "nopending", "twofiles", "lateimport", "nopending-lateimport"] if tier == "quick" else ["canonical", "nopending", "container", "twofiles", "onlytrim", "lateimport", "nopending-lateimport"]


def explore(tier, seed, runner):
    done = []
    # round 0: CLI-only reference sessions
    t0 = [{"prog": "canonical", "cfgs": [{"cli": s}], "ref": {}} for s in SUBSETS]
    r0 = runner(t0)
    ref = {}
    for t, r in zip(t0, r0):
        done.append((t, r))
        if r and r[0] == "ok" and not r[1]["violations"]:
            ref["+".join(sorted(t["cfgs"][0]["cli"]))] = r[1].pop("ref_state")
    cfgs = configs(tier)[len(SUBSETS):]
    tasks = []
    for prog in _progs(tier):
        cs = cfgs if prog == "canonical" else [c for c in configs(tier) if not c.get("xdist") and not c.get("ci")]
        if prog.startswith("nopending"):
            cs = [c for c in cs if "short-report" in (c.get("cli") or []) + (c.get("env") or []) + (c.get("default") or []) or "trim" in (c.get("cli") or [])
                  or c.get("answers") or not c.get("cli")][:: (1 if tier != "quick" else 2)]
        if prog == "lateimport":
            cs = [c for c in cs if "trim" in (c.get("cli") or []) + (c.get("env") or []) + (c.get("default") or []) or (c.get("answers") and "y" in c["answers"])
                  or c.get("shortcut")][:: (1 if tier != "quick" else 2)]
        for i in range(0, len(cs), 6):
            tasks.append({"prog": prog, "cfgs": cs[i : i + 6], "ref": ref})
    for t, r in zip(tasks, runner(tasks)):
        t = dict(t)
        t.pop("ref")
        done.append((t, r))
    return done


def run_case(case):
    # the differential leg needs the reference session of the model's approved set: run it here
    m = FM.resolve(case["cfg"], pending(case["prog"], case["cfg"]))
    ref = {}
    if not m["error"] and m["approved"] and case["prog"] == "canonical":
        _, _, after = run_session("canonical", {"cli": sorted(m["approved"])})
        ref["+".join(sorted(m["approved"]))] = relevant(after)
    return judge(case["prog"], case["cfg"], ref)[0]


def run_task(task):
    out = {"n": 0, "nontrivial": [], "outcomes": {}, "violations": [], "samples": [], "states": [], "transitions": 0, "validated": 0}
    for cfg in task["cfgs"]:
        viol, statekey, m = judge(task["prog"], cfg, task.get("ref") or {})
        out["n"] += 1
        out["transitions"] += 1
        out["states"].append(statekey)
        lab = "error" if m["error"] else ("inactive" if not m["active"] else "A=" + "+".join(sorted(m["approved"])))
        if viol:
            out["violations"] += viol
            lab = "viol:" + viol[0]["what"]
        else:
            out["validated"] += 1
            out["nontrivial"].append(task["prog"] + repr(sorted(cfg.items())))
        out["outcomes"][lab] = out["outcomes"].get(lab, 0) + 1
    if len(task["cfgs"]) == 1 and task["prog"] == "canonical" and "cli" in task["cfgs"][0] and not out["violations"]:
        _, _, after = run_session("canonical", task["cfgs"][0])
        out["ref_state"] = relevant(after)
    out["samples"].append({"program": task["prog"], "config": task["cfgs"][-1], "argv": argv(task["cfgs"][-1]), "env": environ(task["cfgs"][-1])})
    return out
