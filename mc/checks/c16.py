"""C16 - generated code is deterministic and independent of the formatter's presence.
Sets / frozensets (and dicts, lists holding them) up to a size bound over mixed, partly non-orderable elements x every
insertion order x construction method x PYTHONHASHSEED values x formatter configurations; every (seed, formatter) is
one cold interpreter running a real pytest session over the whole batch.  Oracle: for a fixed formatter the written
text of a value is identical across seeds, insertion orders and methods; across formatters the argument has the same
syntax tree and evaluates to the same value."""
from __future__ import annotations

import ast
import itertools

ID = "C16"
LEVEL = "exploration"
RULE = ("all sets and frozensets with <= K elements over a 9-10 element alphabet (str, int, None, tuples that cannot be ordered "
        "against each other, incomparable frozensets, float) x every insertion order x construction method (display, incremental "
        "add, from list, union) plus dict / list / tuple values holding them; each PYTHONHASHSEED x {black, black not importable, "
        "format-command} is one cold `python -m pytest --inline-snapshot=create` process over the whole batch; non-trivial = a "
        "value with >= 2 elements whose text was compared across >= 2 seeds and >= 2 insertion orders; distinct = (value, order, method)"
        "; defaultdict snapshots against every insertion order; <= 3000 sites per cold process")
ASSUMPTIONS = ["for dicts only the construction method is varied: insertion order is observable through the value",
               "black absence is simulated by a project-local black.py that raises ImportError in the cold interpreter"]
TASK_TIMEOUT = 9000
CHUNK = 3000  # sites per cold process (one hash seed per task; a larger file makes the formatter superlinear)

ELEMS_Q = ['"a"', "1", "None", '(1, "a")', "(1, None)", 'frozenset({"a"})', 'frozenset({"b"})', 'frozenset({"a", "b"})', 'frozenset({"c", "a"})',
           # partially ordered without being frozensets themselves: tuples that wrap incomparable frozensets
           '(frozenset({"a", "d"}), 1)', '(frozenset({"b", "c"}), 2)']
ELEMS_T = ELEMS_Q + ['"b"', "2", "1.5", 'frozenset({"a", 1})', "(2,)"]


def bounds(tier):
    return {"elements": len(ELEMS_Q if tier == "quick" else ELEMS_T), "max_size": 3 if tier == "quick" else "4 (size 4: four insertion orders, display / incremental / frozenset only)",
            "seeds": "0..5 with black, 0..2 without black / with format-command" if tier == "quick" else "0..7 with black, 0..3 without black / with format-command", "formatters": ["black", "noblack", "cmd"]}


def _sites(tier):
    """List of (value_key, source lines building v). value_key identifies the mathematical value."""
    E = ELEMS_Q if tier == "quick" else ELEMS_T
    K = 3 if tier == "quick" else 4
    sites = []
    for k in range(0, K + 1):
        for comb in itertools.combinations(E, k):
            if tier == "quick" and k == 3 and sum(1 for c in comb if c.startswith("(frozenset")) == 1:
                continue  # the tuple-wrapped frozensets: all pairs, and triples only when both are present
            if k == 4 and tier != "quick" and sum(1 for c in comb if "frozenset" in c or "(" in c) < 3:
                continue
            key = "set:" + "|".join(sorted(comb))
            allperms = list(itertools.permutations(comb))
            if tier == "quick" and k == 3:
                if sum(1 for c in comb if c[0] in "(fN") < 2:
                    continue
                allperms = [allperms[0], allperms[3], allperms[4]]  # the three rotations
            if k == 4:
                allperms = [allperms[0], allperms[9], allperms[16], allperms[23]]  # four spread-out orders (incl. the reverse)
            for perm in allperms:
                sites.append((key, ["v = {%s}" % ", ".join(perm) if perm else "v = set()"]))
                if len(perm) >= 2 and (tier != "quick" or len(perm) == 2 or perm[0] < perm[1]):
                    sites.append((key, ["v = set()"] + ["v.add(%s)" % e for e in perm]))
                    if tier != "quick" and k <= 3:
                        sites.append((key, ["v = set([%s])" % ", ".join(perm)]))
                        sites.append((key, ["v = {%s} | {%s}" % (perm[0], ", ".join(perm[1:]))]))
                fkey = "f" + key
                sites.append((fkey, ["v = frozenset([%s])" % ", ".join(perm)]))
            # holders: the same set inside a dict / list / tuple, built in first and last permutation order
            perms = list(itertools.permutations(comb))
            for perm in (perms[0], perms[-1]) if len(perms) > 1 else perms[:1]:
                st = "{%s}" % ", ".join(perm) if perm else "set()"
                sites.append(("dict:" + key, ["v = {'k': %s, 'j': frozenset([%s])}" % (st, ", ".join(perm))]))
                sites.append(("list:" + key, ["v = [%s, (%s,)]" % (st, st)]))
                if len(comb) >= 2:
                    # dict subclasses holding the set (their own repr() would show the set in hash order)
                    sites.append(("odict:" + key, ["v = OrderedDict([('k', %s), ('j', [frozenset([%s])])])" % (st, ", ".join(perm))]))
                    sites.append(("counterkey:" + key, ["v = Counter({frozenset([%s]): 2})" % ", ".join(perm)]))
    # an existing dict snapshot compared with dicts that hold the same keys in every insertion order (one value differs):
    # the fixed text must not depend on the order in which the observed dict was built
    base = {"a": "1", "b": "0", "c": "[3]"}
    obs = {"a": "1", "b": "2", "c": "[3]"}
    for perm in itertools.permutations("abc"):
        sites.append(("dictfix:value-changes", ["v = {}"] + ["v[%r] = %s" % (k, obs[k]) for k in perm], "{'a': 1, 'b': 0, 'c': [3]}"))
        sites.append(("dictfix:equal", ["v = {}"] + ["v[%r] = %s" % (k, base[k]) for k in perm], "{'a': 1, 'b': 0, 'c': [3]}"))
        sites.append(("dictfix:nested", ["v = {'k': {}}"] + ["v['k'][%r] = %s" % (k, obs[k]) for k in perm], "{'k': {'a': 1, 'b': 0, 'c': [3]}}"))
        sites.append(("dictfix:key-added", ["v = {}"] + ["v[%r] = %s" % (k, obs[k]) for k in perm] + ["v['d'] = 4"], "{'a': 1, 'b': 0, 'c': [3]}"))
        # the mapping of a defaultdict(factory, {...}) snapshot, and the mapping of an OrderedDict
        sites.append(("dictfix:defaultdict", ["v = defaultdict(int)"] + ["v[%r] = %s" % (k, obs[k]) for k in perm], "defaultdict(int, {'a': 1, 'b': 0, 'c': [3]})"))
        sites.append(("dictfix:defaultdict-equal", ["v = defaultdict(int)"] + ["v[%r] = %s" % (k, base[k]) for k in perm], "defaultdict(int, {'a': 1, 'b': 0, 'c': [3]})"))
        sites.append(("dictfix:defaultdict-nested", ["v = [defaultdict(list)]"] + ["v[0][%r] = %s" % (k, obs[k]) for k in perm] + ["v[0]['d'] = 4"], "[defaultdict(list, {'a': 1, 'b': 0, 'c': [3]})]"))
    for perm in itertools.permutations(("a", "b")):
        sites.append(("dictfix:dataclass-kw", ["v = DCK(**{%s})" % ", ".join("%r: %s" % (k, obs[k]) for k in perm)], "DCK(a=1, b=0)"))
    for i, ex in enumerate(['" a "', '[" a ", "b "]', '{"k": " | ", " j": ""}', '"a\\nb "', '" \\n"', "(1.0, -0.0, 1e100, 2**70)", '[(" a",)]',
                            "{'k': [' x ', b' y ']}", "1j + 2", "[-1, (-2,)]"]):
        sites.append(("misc:%d" % i, ["v = %s" % ex]))
    return sites


def _file(sites):
    out = ["from inline_snapshot import snapshot\nfrom dataclasses import dataclass\nfrom collections import OrderedDict, Counter, defaultdict\n\n\n@dataclass\nclass DCK:\n    a: int\n    b: int\n\n\nclass BadRepr:\n    def __eq__(self, other):\n        return True if isinstance(other, BadRepr) else NotImplemented\n    def __repr__(self):\n        raise RuntimeError('no repr')\n\n\n"
           "def test_000_bad_repr():\n    try:\n        assert BadRepr() == snapshot(1)\n    except Exception:\n        pass\n\n"]
    G = 25  # sites per test function: keeps pytest's per-test overhead out of the cold processes
    for g in range(0, len(sites), G):
        out.append("\ndef test_%d():\n" % (g // G))
        for site in sites[g : g + G]:
            lines, arg = site[1], (site[2] if len(site) > 2 else "")
            out.append("".join("    " + l + "\n" for l in lines) + "    _ok = v == snapshot(%s)\n" % arg)
    return "".join(out)


def build(tier, seed):
    # thorough: 8 hash seeds with black, 4 without / with a format-command over the 42k-site universe (16 tasks of 14 cold
    # processes each: one round on 16 cores; 16 / 8 / 8 seeds did not finish in 3.3 h on a loaded machine)
    seeds = list(range(8))
    tasks = []
    for fmt in ("black", "noblack", "cmd"):
        for hs in seeds:
            if tier == "quick" and (hs >= 6 or (fmt != "black" and hs >= 3)):
                continue
            if tier != "quick" and fmt != "black" and hs >= 4:
                continue
            tasks.append({"fmt": fmt, "hs": hs, "tier": tier})
    return tasks


def run_task(task):
    """One cold interpreter over the whole batch; returns the argument text of every site."""
    from ..drivers import plugin
    from ..oracles.locate import snapshot_calls

    sites = _sites(task["tier"])
    if task.get("only_key"):
        # replay of one disagreement: only the sites of that value (the processes of a full batch take minutes)
        sites = [s_ for s_ in sites if s_[0] == task["only_key"]]
    out = {"n": len(sites), "nontrivial": [], "outcomes": {}, "violations": [], "samples": [], "texts": None}
    texts = []
    for off in range(0, len(sites), CHUNK):
        part = sites[off : off + CHUNK]
        src = _file(part)
        files = {"test_something.py": src, "pyproject.toml": ""}
        if task["fmt"] == "noblack":
            files["black.py"] = "raise ImportError('black is not installed (simulated)')\n"
        if task["fmt"] == "cmd":
            files["pyproject.toml"] = '[tool.inline-snapshot]\nformat-command="cat"\n'
        d = plugin.mk_project(files)
        try:
            r = plugin.cold_session(d, ["--inline-snapshot=create,fix", "-p", "no:randomly"], hashseed=task["hs"], timeout=1500)
            after = plugin.listing(d, text=True)["test_something.py"]
        finally:
            plugin.cleanup()
        if "INTERNALERROR" in r["out"] or r["rc"] not in (0, 1):
            out["violations"].append({"case": task, "what": "internal-error", "detail": r["out"][-1500:]})
            return out
        try:
            calls = snapshot_calls(after, toplevel_only=True)
        except SyntaxError as e:
            out["violations"].append({"case": task, "what": "unparsable", "detail": str(e)})
            return out
        calls = calls[1:]  # the first call belongs to the BadRepr prelude test
        if len(calls) != len(part):
            out["violations"].append({"case": task, "what": "call-count-changed", "detail": "%d vs %d" % (len(calls), len(part))})
            return out
        texts += [c["arg_text"].strip() for c in calls]
    out["texts"] = texts
    out["outcomes"]["ok:process:%s" % task["fmt"]] = 1
    return out


def run_case(case):
    """Replay: a (value key, formatter) disagreement is re-established by running the two named processes again."""
    if "pair" not in case:
        r = run_task(case)
        if r["violations"]:
            return r["violations"]
        # verdicts about one process alone (a site whose snapshot() stayed empty) are made by the comparison step
        return [x for x in _compare([(case, r)], _sites(case["tier"])) if x["case"] == case]
    a = run_task(dict(case["pair"][0], only_key=case["key"]))
    b = run_task(dict(case["pair"][1], only_key=case["key"]))
    sites = [s_ for s_ in _sites(case["pair"][0]["tier"]) if s_[0] == case["key"]]
    v = _compare([(case["pair"][0], a), (case["pair"][1], b)], sites, only_key=case["key"])
    v = [x for x in v if x["what"] == case["what"]][:1]
    if not v:
        # the disagreement may need the other sites of the batch (something shared between call sites): the full processes again
        a = run_task(case["pair"][0])
        b = run_task(case["pair"][1])
        v = _compare([(case["pair"][0], a), (case["pair"][1], b)], _sites(case["pair"][0]["tier"]), only_key=case["key"])
        v = [x for x in v if x["what"] == case["what"]][:1]
    return v


def _norm(txt):
    try:
        return ast.dump(ast.parse(txt, mode="eval"))
    except SyntaxError:
        return "SYNTAXERROR:" + txt


def _compare(results, sites, only_key=None):
    """results: list of (task, task_result). Returns violations."""
    viol = []
    seen = set()
    byfmt = {}
    for t, r in results:
        if r.get("texts"):
            byfmt.setdefault(t["fmt"], []).append((t, r["texts"]))
    canon = {}  # fmt -> key -> (text, task, site index)
    for fmt, runs in byfmt.items():
        for t, texts in runs:
            for i, (key, lines, *_arg) in enumerate(sites):
                if only_key and key != only_key:
                    continue
                if texts[i] == "":
                    vk = ("not-created", key)
                    if vk not in seen:
                        seen.add(vk)
                        viol.append({"case": t, "what": "not-created", "detail": "site %d (%s): %s" % (i, key, lines)})
                    continue
                ref = canon.setdefault(fmt, {}).get(key)
                if ref is None:
                    canon[fmt][key] = (texts[i], t, i)
                elif ref[0] != texts[i]:
                    vk = ("text-differs", fmt, key)
                    if vk not in seen:
                        seen.add(vk)
                        viol.append({"case": {"pair": [ref[1], t], "key": key, "what": "text-differs-across-seeds-or-orders"},
                                     "what": "text-differs-across-seeds-or-orders",
                                     "detail": "value %s, formatter %s: hash seed %s site %d %s wrote %r; hash seed %s site %d %s wrote %r" % (
                                         key, fmt, ref[1]["hs"], ref[2], sites[ref[2]][1], ref[0], t["hs"], i, lines, texts[i])})
    fmts = sorted(canon)
    for key in sorted(set().union(*[set(canon[f]) for f in fmts]) if fmts else []):
        base = None
        for f in fmts:
            if key not in canon[f]:
                continue
            txt, t, i = canon[f][key]
            if base is None:
                base = (f, txt, t)
                continue
            if _norm(base[1]) != _norm(txt):
                viol.append({"case": {"pair": [base[2], t], "key": key, "what": "syntax-tree-differs-across-formatters"},
                             "what": "syntax-tree-differs-across-formatters",
                             "detail": "value %s: %s wrote %r, %s wrote %r" % (key, base[0], base[1], f, txt)})
    return viol


def explore(tier, seed, runner):
    tasks = build(tier, seed)
    results = runner(tasks)
    pairs = list(zip(tasks, results))
    sites = _sites(tier)
    ok = [(t, r[1]) for t, r in pairs if r and r[0] == "ok"]
    viol = _compare(ok, sites)
    # attach cross-run findings to a synthetic result so that the core reports them
    nontrivial = []
    compared = {}
    for t, r in ok:
        if r.get("texts"):
            for i, (key, lines, *_arg) in enumerate(sites):
                compared.setdefault(key, set()).add((t["fmt"], t["hs"], i))
    for key, s in compared.items():
        if (key.count("|") >= 1 or key.startswith("dictfix")) and len({x[1] for x in s}) >= 2 and len({x[2] for x in s}) >= 2:
            nontrivial.append(key)
    for t, r in ok:
        r.pop("texts", None)
    synth = {"n": 0, "nontrivial": nontrivial, "outcomes": {"values-compared": len(compared)}, "violations": viol,
             "samples": [{"value": sites[len(sites) // 2][0], "built_by": sites[len(sites) // 2][1], "processes": len(ok)}]}
    pairs.append(({"compare": "across processes"}, ("ok", synth)))
    return pairs
