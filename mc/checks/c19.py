"""C19 - the public testing helpers reproduce what a real session does.
Programs without externals x all 16 category subsets; three drivers: Example.run_inline (in process),
Example.run_pytest (its own subprocess) and a real pytest session in that directory.  Oracle: the three sets of
changed files are equal, and the categories reported by run_inline equal the category sections of the pytest runs
(an `update` whose diff is empty is only visible to run_inline and is tolerated)."""
from __future__ import annotations

import itertools

ID = "C19"
LEVEL = "exploration"
RULE = ("programs: slot programs with several pending categories (list, `in`, sub-snapshots, dataclass, separate sites), atoms incl. "
        "HasRepr values, failing / raising tests, multi-file projects x all 16 category subsets; each case = run_inline + "
        "run_pytest + a real pytest session (forked pytest.main; the fork server itself is compared with cold `python -m pytest` "
        "on a slice); non-trivial = at least one file changed in the real session and all three drivers agree; distinct = (program, subset)"
        "; plus the second real session in one directory (bytecode cache on) against run_inline on the files the first one left")
ASSUMPTIONS = ["projects do not use externals (property scope)", "run_pytest and the real session get the flags plus `report` so that the category sections can be read"]
TASK_TIMEOUT = 1200
CATS = ("create", "fix", "trim", "update")
FS = [list(c) for n in range(5) for c in itertools.combinations(CATS, n)]
H = "from inline_snapshot import snapshot\n\n\n"
OPQ = ("class Opaque:\n    def __init__(self, n=1):\n        self.n = n\n    def __repr__(self):\n        return '<Opaque %d>' % self.n\n"
       "    def __eq__(self, o):\n        return self.n == o.n if isinstance(o, Opaque) else NotImplemented\n\n\n")
DC = "from dataclasses import dataclass\n\n\n@dataclass\nclass DC:\n    x: int\n    y: int = 0\n\n\n"

PROGRAMS = {
    "four-sites": {"test_something.py": H + "def test_a():\n    assert 1 == snapshot()\n\n\ndef test_b():\n    assert 2 == snapshot(3)\n\n\n"
                   "def test_c():\n    assert 4 <= snapshot(9)\n\n\ndef test_d():\n    assert 5 == snapshot(2+3)\n"},
    "one-body": {"test_something.py": H + "def test_a():\n    assert 1 == snapshot()\n    assert 2 == snapshot(3)\n    assert 4 <= snapshot(9)\n    assert 5 == snapshot(2+3)\n"},
    "list-mixed": {"test_something.py": H + "def test_a():\n    assert [1, 2, 4] == snapshot([1+0, 3])\n"},
    "in-mixed": {"test_something.py": H + "def test_a():\n    s = snapshot([1+0, 7, 2])\n    assert 1 in s\n    assert 5 in s\n    assert 2 in s\n"},
    "sub-mixed": {"test_something.py": H + "def test_a():\n    s = snapshot({'a': 1+0, 'b': 2, 'c': 3})\n    assert s['a'] == 1\n    assert s['b'] == 5\n    assert s['d'] == 4\n"},
    "dataclass": {"test_something.py": DC + H + "def test_a():\n    assert DC(x=1, y=2) == snapshot(DC(x=1+0, y=3))\n    assert DC(x=1) == snapshot(DC(x=1, y=0))\n"},
    "hasrepr": {"test_something.py": OPQ + H + "def test_a():\n    assert Opaque(1) == snapshot()\n    assert [Opaque(2)] == snapshot([0])\n"},
    "hasrepr-present": {"test_something.py": "from inline_snapshot import HasRepr\n" + OPQ + H + "def test_a():\n    assert Opaque(1) == snapshot(HasRepr(Opaque, '<Opaque 2>'))\n"},
    "failing": {"test_something.py": H + "def test_a():\n    assert 1 == snapshot(2)\n    assert False\n\n\ndef test_b():\n    raise ValueError('x')\n\n\ndef test_c():\n    assert 3 >= snapshot()\n"},
    "strings": {"test_something.py": H + "def test_a():\n    assert ' a ' == snapshot()\n    assert 'a\\nb' == snapshot('a')\n    assert \"'\" == snapshot('x' 'y')\n"},
    "two-files": {"test_a.py": H + "def test_a():\n    assert 1 == snapshot()\n    assert 4 <= snapshot(9)\n",
                  "test_b.py": H + "def test_b():\n    assert [2] == snapshot([3])\n    assert 5 == snapshot(2+3)\n"},
    "clean-file": {"test_something.py": 'from inline_snapshot import snapshot\n\n\ndef test_a():\n    assert list(range(30)) == snapshot()\n    assert "x" == snapshot("y")\n'},
    "never-compared": {"test_something.py": H + "def test_a():\n    s = snapshot([1+0, 2])\n    t = snapshot()\n    assert 1 == snapshot(1)\n"},
    "loop": {"test_something.py": H + "def test_a():\n    for x in (1, 8, 2):\n        assert x <= snapshot(5)\n    for y in (1, 2):\n        assert y in snapshot([2, 3])\n"},
    "nothing-pending": {"test_something.py": H + "def test_a():\n    assert 1 == snapshot(1)\n    assert 'a' in snapshot(['a'])\n"},
    "nested-snapshot": {"test_something.py": H + "def test_a():\n    assert [1, 2] == snapshot([snapshot(1), 3])\n"},
    "tuple-set": {"test_something.py": H + "def test_a():\n    assert (1,) == snapshot((1, 2))\n    assert {1, 'a'} == snapshot()\n    assert (3+5j) == snapshot()\n"},
    "parametrize-like": {"test_something.py": H + "def check(x):\n    assert x <= snapshot()\n\n\ndef test_a():\n    check(1)\n    check(3)\n\n\ndef test_b():\n    check(2)\n"},
}
PROGRAMS["replace-all-members"] = {"test_something.py": H + "def test_a():\n    assert 5 in snapshot([1, 2])\n\n\ndef test_b():\n    s = snapshot({'a': 1})\n    assert s['b'] == 2\n\n\n"
                                   "def test_c():\n    assert [] == snapshot([1, 2+0])\n    assert (1, 2) == snapshot(())\n"}
PROGRAMS["two-files-later-category-only-first"] = {"test_a.py": H + "def test_a():\n    assert 1 == snapshot()\n    assert 2 == snapshot(3)\n    assert 4 <= snapshot(9)\n",
                                                    "test_b.py": H + "def test_b():\n    assert 5 == snapshot()\n"}
PROGRAMS["defaults-in-pyproject"] = {"test_something.py": PROGRAMS["four-sites"]["test_something.py"],
                                     "pyproject.toml": '[tool.inline-snapshot]\ndefault-flags = ["create", "fix", "trim"]\n'}
# a distribution mode configured in the project without any worker (`--dist` alone distributes nothing): xdist is importable,
# not running; the helpers and the real session must still agree
PROGRAMS["dist-option-without-workers"] = {"test_something.py": PROGRAMS["four-sites"]["test_something.py"],
                                           "pytest.ini": "[pytest]\naddopts = --dist=loadfile\n"}
PROGRAMS["dist-option-n0"] = {"test_something.py": PROGRAMS["four-sites"]["test_something.py"],
                              "pytest.ini": "[pytest]\naddopts = --dist=loadscope -n 0\n"}
# a test with missing values runs before tests whose asserted comparison fails (counters of one test must not reach the next one)
PROGRAMS["missing-then-failing-bound"] = {"test_something.py": H + "def test_a():\n    assert 1 == snapshot()\n\n\ndef test_b():\n    assert 5 <= snapshot(3)\n    assert 2 in snapshot([1, 2])\n\n\n"
                                          "def test_c():\n    assert 7 >= snapshot(9)\n    assert snapshot({'a': 1, 'b': 2})['a'] == 1\n"}
PROGRAMS["missing-then-failing-eq"] = {"test_something.py": H + "def test_a():\n    s = snapshot()\n    assert s['k'] == 1\n\n\ndef test_b():\n    assert 5 == snapshot(3)\n    assert 2 in snapshot([1, 2])\n\n\n"
                                       "def test_c():\n    assert 6 in snapshot([5])\n    assert 4 <= snapshot(9)\n"}
# classes nested in a module-level class of the test file: as constructor, as type value, as Enum member, as HasRepr argument
# (the in-process helper executes the file with other module globals than a session: names derived from the class must not differ)
NESTED = ("import enum\nfrom dataclasses import dataclass\n\n\nclass Config:\n    @dataclass\n    class Limits:\n        low: int\n        high: int = 9\n\n"
          "    class Mode(enum.Enum):\n        FAST = 1\n\n    class Raw:\n        def __repr__(self):\n            return '<raw>'\n\n"
          "        def __eq__(self, o):\n            return type(o).__name__ == 'Raw' or NotImplemented\n\n\n")
PROGRAMS["nested-classes-create"] = {"test_something.py": NESTED + H + "def test_a():\n    assert Config.Limits(low=1) == snapshot()\n    assert [int, Config.Limits, Config] == snapshot()\n"
                                     "    assert Config.Mode.FAST == snapshot()\n    assert Config.Raw() == snapshot()\n"}
PROGRAMS["nested-classes-fix"] = {"test_something.py": NESTED + H + "def test_a():\n    assert Config.Limits(low=1) == snapshot(Config.Limits(low=2, high=9))\n    assert {'t': Config.Limits} == snapshot({'t': int})\n"
                                  "    assert [Config.Mode.FAST] == snapshot([1])\n    assert Config.Limits(low=3) == snapshot({'x': 1})\n"}
NEEDS_XDIST = {"dist-option-without-workers", "dist-option-n0"}
QUICK = ["nested-classes-create", "nested-classes-fix", "missing-then-failing-bound", "missing-then-failing-eq", "dist-option-without-workers", "dist-option-n0", "defaults-in-pyproject", "two-files-later-category-only-first", "replace-all-members", "four-sites", "list-mixed", "sub-mixed", "hasrepr", "failing", "two-files", "in-mixed", "strings", "dataclass", "clean-file", "nested-snapshot", "never-compared"]


GEN_BATCH = 12
GEN_FS_QUICK = [[], ["create", "fix"], ["trim", "update"], list(CATS), ["fix"], ["create", "trim"], ["update"], ["create", "fix", "trim"]]


def _gen_programs(tier):
    """Generated projects: the slot programs of C09 (list / in / sub-snapshot / dataclass / nested / asserted / separate sites,
    <= 3 slots) without the ones that outsource (property scope: no externals)."""
    from . import c09

    return [p for p in c09._programs(tier) if not (p["sh"] == "sites" and any(k.startswith("ext") for k in p["s"]))]


def bounds(tier):
    return {"programs": len(QUICK) if tier == "quick" else len(PROGRAMS), "subsets": 16, "drivers": ["run_inline", "run_pytest", "real session"],
            "generated_programs": len(_gen_programs(tier)),
            "generated_subsets": "one of 8 subsets per batch, rotating (quick)" if tier == "quick" else "all 16 subsets",
            "generated_drivers": ["run_inline", "real session"], "generated_batch": GEN_BATCH}


def build(tier, seed):
    names = QUICK if tier == "quick" else list(PROGRAMS)
    tasks = []
    for n in names:
        for i in range(0, len(FS), 2):
            tasks.append({"prog": n, "fs": FS[i : i + 2]})
    tasks.append({"conformance": names[:4]})
    h2 = [{"hist2": n, "F1": f1, "F2": f2} for n in HIST2 for f1, f2 in HIST2_F]
    for i in range(0, len(h2), 3):
        tasks.append({"hist2": h2[i : i + 3]})
    gp = _gen_programs(tier)
    for bi, i in enumerate(range(0, len(gp), GEN_BATCH)):
        batch = gp[i : i + GEN_BATCH]
        if tier == "quick":
            tasks.append({"gen": batch, "fs": [GEN_FS_QUICK[bi % len(GEN_FS_QUICK)]]})
        else:
            for j in range(0, len(FS), 4):
                tasks.append({"gen": batch, "fs": FS[j : j + 4]})
    return tasks


def _gen_compare(progs, F):
    """Both drivers on one project holding the given programs (one file each). Returns (list of per-program verdicts, changed?)"""
    import os
    from . import c09
    from ..drivers import plugin
    from ..drivers.inline import run_inline

    files = {"test_p%02d.py" % i: c09.source(p) for i, p in enumerate(progs)}
    r1 = run_inline(dict(files), F)
    d = plugin.mk_project(dict({"pyproject.toml": ""}, **files))
    try:
        r2 = plugin.session(d, ["--inline-snapshot=" + ",".join(F + ["report"])])
        after = plugin.listing(d, text=True)
    finally:
        plugin.cleanup()
    verdicts = [None] * len(progs)
    if r1["error"]:
        return [("run_inline-raised", r1["error"]["type"] + ": " + r1["error"]["msg"][:300])] * len(progs), False
    if plugin.internal_error(r2["out"]) or r2["rc"] not in (0, 1):
        return [("real-session-internal-error", "rc=%s %s" % (r2["rc"], r2["out"][-600:]))] * len(progs), False
    changed = False
    for i, p in enumerate(progs):
        n = "test_p%02d.py" % i
        a = r1["files"].get(n)
        b = after.get(n)
        if b != files[n]:
            changed = True
        if a != b:
            verdicts[i] = ("run_inline-differs-from-real-session", "flags %s\n--- run_inline ---\n%s\n--- real session ---\n%s\n--- before ---\n%s" % (
                F, (a or "<missing>")[-500:], (b or "<missing>")[-500:], files[n][-500:]))
    strict = lambda cs: sorted(c for c in cs if c != "update")  # noqa
    ic = sorted(r1["reported"] or [])
    rc = plugin.report_sections(r2["out"])
    if strict(ic) != strict(rc) or ("update" in rc and "update" not in ic):
        for i in range(len(progs)):
            if verdicts[i] is None:
                verdicts[i] = ("reported-categories-differ", "run_inline %s, real session shows %s (flags %s)" % (ic, rc, F))
    return verdicts, changed


def _gen_task(task):
    out = {"n": 0, "nontrivial": [], "outcomes": {}, "violations": [], "samples": []}
    from . import c09

    for F in task["fs"]:
        verdicts, changed = _gen_compare(task["gen"], F)
        for p, v in zip(task["gen"], verdicts):
            out["n"] += 1
            ch = changed
            if v is not None:  # judge again alone: programs of a batch must not fake each other's verdict
                v1, ch = _gen_compare([p], F)
                v = v1[0]
            if v is not None:
                out["violations"].append({"case": {"gen": p, "F": F}, "what": v[0], "detail": v[1]})
                lab = "viol:" + v[0]
            else:
                lab = "generated-agree:" + ("changed" if ch else "unchanged")
                if ch:
                    out["nontrivial"].append("gen|" + repr(sorted(p.items())) + "|" + "+".join(F))
            out["outcomes"][lab] = out["outcomes"].get(lab, 0) + 1
    out["samples"].append({"generated_program": c09.source(task["gen"][0])[-300:], "subset": task["fs"][0]})
    return out


def _sections(text):
    import re

    return sorted(set(m.lower() for m in re.findall(r"(Create|Fix|Trim|Update) snapshots", text or "")))


def run_case(case):
    if "hist2" in case:
        vs = _hist2_case(case)
        case.pop("_changed", None)
        return vs
    if "gen" in case:
        v, _ = _gen_compare([case["gen"]], case["F"])
        return [] if v[0] is None else [{"case": case, "what": v[0][0], "detail": v[0][1]}]
    from inline_snapshot.testing import Example
    from ..drivers import plugin
    from ..drivers.inline import Cap, neutral_cwd
    import os

    files = PROGRAMS[case["prog"]]
    F = case["F"]
    viol = []

    def V(what, detail):
        viol.append({"case": case, "what": what, "detail": detail})

    os.chdir(neutral_cwd())
    # 1. run_inline
    cf1, rc1, ra1 = Cap(), Cap(), Cap()
    try:
        Example(dict(files)).run_inline(["--inline-snapshot=" + ",".join(F)], changed_files=cf1, reported_categories=rc1, raises=ra1)
    except BaseException as e:  # noqa
        V("run_inline-raised", "%s: %s" % (type(e).__name__, str(e)[:400]))
        return viol
    inline_changed = dict(cf1.get({}))
    inline_cats = sorted(rc1.get([]) or [])
    # 2. run_pytest
    cf2, rep2, ret2 = Cap(), Cap(), Cap()
    # the empty subset is passed explicitly and without `report`: it must not fall back to configured defaults
    flag = "--inline-snapshot=" + ",".join(F + (["report"] if F or "pyproject.toml" not in files else []))
    try:
        noxd = [] if case["prog"] in NEEDS_XDIST else ["-p", "no:xdist"]
        Example(dict(files)).run_pytest([flag] + plugin.NOPLUG + noxd + ["-p", "no:cacheprovider"], changed_files=cf2, report=rep2, returncode=ret2)
    except BaseException as e:  # noqa
        V("run_pytest-raised", "%s: %s" % (type(e).__name__, str(e)[:400]))
        return viol
    pytest_changed = dict(cf2.get({}))
    pytest_cats = _sections(rep2.get(""))
    # 3. real session
    d = plugin.mk_project(dict({"pyproject.toml": ""}, **files))
    try:
        r = plugin.session(d, [flag], xdist=case["prog"] in NEEDS_XDIST)
        after = plugin.listing(d, text=True)
    finally:
        plugin.cleanup()
    real_changed = {k: v for k, v in after.items() if k.endswith(".py") and files.get(k) != v}
    real_cats = plugin.report_sections(r["out"])
    if plugin.internal_error(r["out"]):
        V("real-session-internal-error", r["out"][-600:])
        return viol
    if inline_changed != real_changed:
        V("run_inline-differs-from-real-session", _diff(inline_changed, real_changed))
    if pytest_changed != real_changed:
        V("run_pytest-differs-from-real-session", _diff(pytest_changed, real_changed))
    if pytest_cats != real_cats:
        V("run_pytest-report-differs-from-real-session", "%s vs %s" % (pytest_cats, real_cats))
    strict = lambda cs: [c for c in cs if c != "update"]  # noqa
    if not F and "pyproject.toml" in files:
        real_cats = inline_cats  # no report requested for the explicitly empty subset
    if strict(inline_cats) != strict(real_cats) or ("update" in real_cats and "update" not in inline_cats):
        V("reported-categories-differ", "run_inline %s, real session shows %s" % (inline_cats, real_cats))
    case["_changed"] = bool(real_changed)
    return viol


# the second real session in one directory (bytecode cache on, as by default) against the helpers run on the files the first one left
HIST2 = {
    "same-size-list": H + "def rank():\n    return ['amy', 'bob', 'eve']\n\n\ndef test_a():\n    assert rank() == snapshot(['bob', 'eve', 'amy'])\n",
    "same-size-scalars": H + "def test_a():\n    assert 5 == snapshot(4)\n    assert 'b' == snapshot('a')\n\n\ndef test_b():\n    assert 7 <= snapshot(9)\n    assert 3 in snapshot([3, 4])\n",
    "same-size-dict": H + "def test_a():\n    assert {'a': 2, 'b': 1} == snapshot({'a': 1, 'b': 2})\n    assert 6 == snapshot()\n",
}
HIST2_F = [(["fix"], ["fix"]), (["fix"], []), (["fix"], list(CATS)), (["trim"], ["fix"]), (["fix", "trim"], ["trim", "update"]), (["create"], ["fix"]), (list(CATS), list(CATS))]


def _hist2_case(case):
    import os
    import time
    from inline_snapshot.testing import Example
    from ..drivers import plugin
    from ..drivers.inline import Cap, neutral_cwd

    viol = []
    src = HIST2[case["hist2"]]
    d = plugin.mk_project({"pyproject.toml": "", "test_something.py": src})
    fn = os.path.join(d, "test_something.py")

    def clock(i):
        # a file written "now" (by the harness or by a rewrite) gets its own past date; a date an earlier step set is left alone
        if os.stat(fn).st_mtime > time.time() - 1000:
            old = time.time() - 50000 + 1000 * i
            os.utime(fn, (old, old))

    try:
        clock(0)
        r0 = plugin.session(d, [], bytecode=True)  # fills the bytecode cache
        r1 = plugin.session(d, ["--inline-snapshot=" + ",".join(case["F1"])], bytecode=True)
        mid = plugin.listing(d, text=True)["test_something.py"]
        clock(1)
        flag = "--inline-snapshot=" + ",".join(case["F2"] + ["report"])
        r2 = plugin.session(d, [flag], bytecode=True)
        after = plugin.listing(d, text=True)["test_something.py"]
    finally:
        plugin.cleanup()
    for r in (r0, r1, r2):
        if plugin.internal_error(r["out"]):
            return [{"case": case, "what": "real-session-internal-error", "detail": r["out"][-600:]}]
    os.chdir(neutral_cwd())
    cf1, rc1 = Cap(), Cap()
    try:
        Example({"test_something.py": mid}).run_inline(["--inline-snapshot=" + ",".join(case["F2"])], changed_files=cf1, reported_categories=rc1, raises=Cap())
    except BaseException as e:  # noqa
        return [{"case": case, "what": "run_inline-raised", "detail": "%s: %s" % (type(e).__name__, str(e)[:400])}]
    inline_after = dict(cf1.get({})).get("test_something.py", mid)
    if inline_after != after:
        viol.append({"case": case, "what": "run_inline-differs-from-second-real-session",
                     "detail": "--- after session 1 (%s) ---\n%s\n--- run_inline %s ---\n%s\n--- second real session ---\n%s\n%s" % (case["F1"], mid[-400:], case["F2"], inline_after[-400:], after[-400:], r2["out"][-400:])})
    strict = lambda cs: sorted(c for c in cs if c != "update")  # noqa
    if strict(rc1.get([]) or []) != strict(plugin.report_sections(r2["out"])):
        viol.append({"case": case, "what": "reported-categories-differ", "detail": "run_inline %s, second real session shows %s" % (sorted(rc1.get([]) or []), plugin.report_sections(r2["out"]))})
    case["_changed"] = mid != src
    return viol


def _diff(a, b):
    out = []
    for k in sorted(set(a) | set(b)):
        if a.get(k) != b.get(k):
            out.append("%s:\n--- helper ---\n%s\n--- real session ---\n%s" % (k, (a.get(k) or "<unchanged>")[-500:], (b.get(k) or "<unchanged>")[-500:]))
    return "\n".join(out)[:1500]


def _conformance(names):
    """The fork server must behave like a cold `python -m pytest` process."""
    from ..drivers import plugin

    viol = []
    n = 0
    for name in names:
        for F in (["create", "fix"], list(CATS), []):
            files = dict(PROGRAMS[name], **{"pyproject.toml": ""})
            res = []
            for drv in (plugin.session, plugin.cold_session):
                d = plugin.mk_project(files)
                try:
                    r = drv(d, ["--inline-snapshot=" + ",".join(F + ["report"])])
                    res.append((r["rc"], sorted(r["outcomes"].items()), plugin.listing(d, text=True)))
                finally:
                    plugin.cleanup()
            n += 1
            if res[0] != res[1]:
                viol.append({"case": {"conformance": name, "F": F}, "what": "fork-server-differs-from-cold-process",
                             "detail": "rc/outcomes %s vs %s" % (res[0][:2], res[1][:2])})
    return viol, n


def run_task(task):
    out = {"n": 0, "nontrivial": [], "outcomes": {}, "violations": [], "samples": []}
    if "gen" in task:
        return _gen_task(task)
    if "hist2" in task:
        for c in task["hist2"]:
            vs = _hist2_case(c)
            changed = c.pop("_changed", False)
            out["n"] += 1
            out["violations"] += vs
            lab = "viol:" + vs[0]["what"] if vs else "agree:second-session"
            if not vs and changed:
                out["nontrivial"].append("hist2|%s|%s|%s" % (c["hist2"], c["F1"], c["F2"]))
            out["outcomes"][lab] = out["outcomes"].get(lab, 0) + 1
        return out
    if "conformance" in task:
        v, n = _conformance(task["conformance"])
        out["n"] = n
        out["violations"] = v
        out["outcomes"]["conformance-cold-vs-fork"] = n
        out["extra"] = {"fork_server_validated_against_cold": n - len(v)}
        return out
    for F in task["fs"]:
        case = {"prog": task["prog"], "F": F}
        vs = run_case(case)
        changed = case.pop("_changed", False)
        out["n"] += 1
        if vs:
            out["violations"] += vs
            lab = "viol:" + vs[0]["what"]
        else:
            lab = "agree:" + ("changed" if changed else "unchanged")
            if changed:
                out["nontrivial"].append(task["prog"] + "|" + "+".join(F))
        out["outcomes"][lab] = out["outcomes"].get(lab, 0) + 1
    out["samples"].append({"program": task["prog"], "files": PROGRAMS[task["prog"]], "subset": task["fs"][0]})
    return out
