"""C17 - what is recorded is the value at comparison time.
Mutation schedules: mutable value shape x operation x every sequence (length <= L) over {compare, mutation kinds};
the same script is executed (a) by the real code with create (and with fix from a previous value) and (b) by an
alias-free recorder that deep-copies at comparison time; the value evaluated from the rewritten file must equal
the recorder's aggregate.  Non-copyable values must raise UsageError and write nothing."""
from __future__ import annotations

import itertools

ID = "C17"
LEVEL = "exploration"
RULE = ("shapes {list, nested list, dict of list, list of dict, set, dataclass with list field, tuple holding a list, namedtuple "
        "holding a list, dict holding a tuple holding a list} x operations {==, <=, >=, in, [k]} x all action sequences of length "
        "<= L over {compare, 4-5 mutation kinds of the shape} with at least one compare x {empty snapshot + create, previous "
        "value + fix}; scripts that fail on their own or contradict themselves (== with two different values) are dropped by "
        "the generator after the alias-free run; non-trivial = at least one mutation happens after a comparison; distinct = "
        "(shape, op, sequence, mode); plus non-copyable values x operations")
ASSUMPTIONS = ["the alias-free reference is a recorder executed on the same generated module with snapshot rebound",
               "bounds (<=, >=) only for shapes whose values stay mutually orderable"]
BATCH = 40

SHAPES = {
    "list": ("[1, 2]", ["v.append(9)", "v.clear()", "v[0:1] = [7, 8]", "del v[0]", "v[0] = 5"]),
    "nlist": ("[[1], [2]]", ["v[0].append(9)", "v.append([3])", "v[1].clear()", "v[0][0] = 5", "v.reverse()"]),
    "dictl": ("{'a': [1], 'b': 2}", ["v['a'].append(9)", "v['c'] = 3", "v.clear()", "del v['b']", "v['a'] = [0]"]),
    "listd": ("[{'a': 1}, 2]", ["v[0]['b'] = 9", "v.append(3)", "v[0].clear()", "v[0]['a'] = 5"]),
    "set": ("{1, 2}", ["v.add(9)", "v.clear()", "v.discard(1)"]),
    "dc": ("DC(x=[1], y=2)", ["v.x.append(9)", "v.y = 5", "v.x = [0]", "v.z.append(1)"]),
    "tuplel": ("([1], 2)", ["v[0].append(9)", "v[0].clear()", "v[0][0] = 5"]),
    "ntl": ("NT(a=[1], b={'k': 2})", ["v.a.append(9)", "v.b['j'] = 1", "v.a.clear()", "v.b.clear()"]),
    # hashable but mutable values (a copy must not be skipped because a value can be hashed), also inside immutable containers
    "hdc": ("HDC(x=1, y=2)", ["v.x = 5", "v.y = 9", "v.x += 1"]),
    "job": ("Job('a', 1)", ["v.state = 2", "v.name = 'b'", "v.state += 1"]),
    "thdc": ("(HDC(x=1, y=2), 3)", ["v[0].x = 5", "v[0].y = 9"]),
    "fsjob": ("frozenset({Job('a', 1)})", ["next(iter(v)).state = 2", "next(iter(v)).state += 5"]),
    "barr": ("bytearray(b'ab')", ["v.append(99)", "v[0] = 65", "v.clear()", "v.extend(b'z')"]),
    "ttl": ("(([1],),)", ["v[0][0].append(9)", "v[0][0].clear()"]),
    "deep": ("{'k': ([1, [2]], 3)}", ["v['k'][0].append(9)", "v['k'][0][1].append(8)", "v['x'] = 1", "v['k'][0][1].clear()"]),
}
OPS = ("==", "<=", ">=", "in", "[k]")
ORDERABLE = {"list", "nlist", "tuplel", "barr", "ttl"}
PREV = {"==": "[0]", "<=": "[]", ">=": "[99]", "in": "[0]", "[k]": "{'k': 0}"}
PREV_GE = {"list": "[99]", "nlist": "[[99]]", "tuplel": "([99], 0)", "barr": "bytearray(b'zz')", "ttl": "(([99],),)"}
PREV_LE = {"list": "[]", "nlist": "[]", "tuplel": "()", "barr": "bytearray(b'')", "ttl": "()"}


def bounds(tier):
    return {"shapes": len(SHAPES), "ops": list(OPS), "max_actions": _L(tier), "modes": ["create", "fix-from-previous", "in: every tested state already a member, fix+trim"]}


def _L(tier):
    return 3 if tier == "quick" else 4


def _cases(tier):
    cases = []
    for sh, (init, muts) in SHAPES.items():
        alpha = ["C"] + list(range(len(muts)))
        for op in OPS:
            if op in ("<=", ">=") and sh not in ORDERABLE:
                continue
            for n in range(1, _L(tier) + (2 if op in ("in", "<=", ">=") else 1)):
                for seq in itertools.product(alpha, repeat=n):
                    if "C" not in seq:
                        continue
                    for mode in ("create", "fix"):
                        if mode == "fix" and (tier == "quick" and n >= _L(tier)):
                            continue
                        cases.append({"sh": sh, "op": op, "seq": list(seq), "mode": mode})
    # `in` snapshots that already hold every state that will be tested (plus one that will not): the record of a known member
    # must be a copy as well, otherwise trim removes tested members after the object is modified
    for sh in ("list", "nlist", "dictl", "dc", "tuplel", "job", "hdc"):
        init, muts = SHAPES[sh]
        alpha = ["C"] + list(range(len(muts)))
        for n in range(2, _L(tier) + 2):
            for seq in itertools.product(alpha, repeat=n):
                if seq[0] == "C" and "C" in seq[1:] and any(a != "C" for a in seq):
                    cases.append({"sh": sh, "op": "in", "seq": list(seq), "mode": "known"})
    for op in OPS:
        for kind in ("ident", "badcopy"):
            cases.append({"nocopy": kind, "op": op})
        for mut in ("v.items.append(3)", "v.items.clear()", ""):
            cases.append({"nocopy": "locked", "op": op, "mut": mut})
    # a value that cannot be copied arrives under a new key of a sub-snapshot that already has content (and next to other new keys)
    for kind in ("ident", "badcopy"):
        for prev in ("{'a': 1}", "{'a': 1, 'b': [2]}", "{'a': {'x': 1}}"):
            for extra in ("", "assert s['n'] == 5"):
                cases.append({"nocopy": kind, "op": "[k]", "prev": prev, "extra": extra})
    for kind in ("ident", "badcopy"):
        for ex in EXISTING:
            cases.append({"nocopy": kind, "op": "==", "existing": ex})
    return cases


def build(tier, seed):
    cs = _cases(tier)
    a = [c for c in cs if c.get("mode") != "known"]
    b = [c for c in cs if c.get("mode") == "known"]  # these sessions approve trim as well: batched apart
    return [{"cases": a[i : i + BATCH]} for i in range(0, len(a), BATCH)] + [{"cases": b[i : i + BATCH]} for i in range(0, len(b), BATCH)]


def _cmp(op):
    return {"==": "assert v == s", "<=": "assert v <= s", ">=": "assert v >= s", "in": "assert v in s", "[k]": "assert s['k'] == v"}[op]


NOCOPY = (
    "class Ident:\n    pass\n\n\n"
    "class BadCopy:\n    def __init__(self, n):\n        self.n = n\n    def __eq__(self, o):\n        return isinstance(o, BadCopy) and self.n == o.n\n"
    "    def __le__(self, o):\n        return self.n <= o.n\n    def __ge__(self, o):\n        return self.n >= o.n\n"
    "    def __hash__(self):\n        return 1\n    def __deepcopy__(self, memo):\n        return BadCopy(self.n + 1)\n    def __repr__(self):\n        return 'BadCopy(%d)' % self.n\n\n\n"
)


HASHMUT = (
    "@dataclass(unsafe_hash=True)\nclass HDC:\n    x: int\n    y: int = 0\n\n\n"
    "import threading\n\n\n@dataclass\nclass Locked:\n    items: list\n    lock: object = field(default_factory=threading.Lock, repr=False, compare=False)\n"
    "    def __le__(self, o):\n        return self.items <= o.items\n    def __ge__(self, o):\n        return self.items >= o.items\n    __hash__ = None\n\n\n"
    "class Job:\n    def __init__(self, name, state):\n        self.name = name\n        self.state = state\n"
    "    def __eq__(self, o):\n        return (self.name, self.state) == (o.name, o.state) if isinstance(o, Job) else NotImplemented\n"
    "    def __hash__(self):\n        return hash(self.name)\n    def __repr__(self):\n        return 'Job(%r, %r)' % (self.name, self.state)\n\n\n"
)


# value template (X = the non-copyable object) and the previous snapshot argument: the object arrives as an *inserted* part
EXISTING = [("[1, X]", "[1]"), ("[X, 1]", "[1]"), ("{'a': 1, 'b': X}", "{'a': 1}"), ("DC(x=1, z=[X])", "DC(x=1)"), ("(1, X)", "(1,)"),
            ("[1, [X]]", "[1]"), ("{'a': [X]}", "{'a': []}"), ("NT(a=1, b=X)", "NT(a=1, b=2)")]


def _site(i, c):
    if "existing" in c:
        init = "Ident()" if c["nocopy"] == "ident" else "BadCopy(1)"
        val, prev = c["existing"]
        return "def test_%d():\n    v = %s\n    s = snapshot(%s)\n    assert v == s\n" % (i, val.replace("X", init), prev)
    if "nocopy" in c and "prev" in c:
        init = "Ident()" if c["nocopy"] == "ident" else "BadCopy(1)"
        lines = ["v = %s" % init, "s = snapshot(%s)" % c["prev"], "assert s['a'] == %s" % ("1" if "'a': 1" in c["prev"] else "{'x': 1}")]
        if c["extra"]:
            lines.append(c["extra"])
        lines.append("assert s['k'] == v")
        return "def test_%d():\n" % i + "".join("    " + l + "\n" for l in lines)
    if c.get("nocopy") == "locked":
        # a value that owns something which cannot be deep-copied (a lock) next to a list that is modified after the comparison
        return "def test_%d():\n    v = Locked(items=[1, 2])\n    s = snapshot()\n    %s\n    %s\n" % (i, _cmp(c["op"]), c["mut"] or "pass")
    if "nocopy" in c:
        init = "Ident()" if c["nocopy"] == "ident" else "BadCopy(1)"
        return "def test_%d():\n    v = %s\n    s = snapshot()\n    %s\n" % (i, init, _cmp(c["op"]))
    init, muts = SHAPES[c["sh"]]
    arg = ""
    if c["mode"] == "known":
        arg = c.get("_known", "")
    if c["mode"] == "fix":
        arg = PREV_GE[c["sh"]] if c["op"] == ">=" else (PREV_LE[c["sh"]] if c["op"] == "<=" else PREV[c["op"]])
    lines = ["v = %s" % init, "s = snapshot(%s)" % arg]
    for a in c["seq"]:
        lines.append(_cmp(c["op"]) if a == "C" else muts[a])
    return "def test_%d():\n" % i + "".join("    " + l + "\n" for l in lines)


class _Rec:
    """Alias-free recorder: deep-copies at comparison time, aggregates like the documentation says."""

    def __init__(self, prev=None):
        self.op = None
        self.vals = []
        self.children = {}

    def _add(self, op, o):
        import copy

        self.op = op
        self.vals.append(copy.deepcopy(o))
        return True

    def __eq__(self, o):
        return self._add("==", o)

    def __ge__(self, o):  # x <= s
        return self._add("<=", o)

    def __le__(self, o):  # x >= s
        return self._add(">=", o)

    def __contains__(self, o):
        return self._add("in", o)

    def __getitem__(self, k):
        self.op = "[k]"
        return self.children.setdefault(k, _Rec())

    __hash__ = None

    def value(self):
        if self.op == "==":
            return self.vals[0]
        if self.op == "<=":
            return max(self.vals)
        if self.op == ">=":
            return min(self.vals)
        if self.op == "in":
            out = []
            for v in self.vals:
                if v not in out:
                    out.append(v)
            return out
        if self.op == "[k]":
            return {k: c.value() for k, c in self.children.items() if c.op}
        raise ValueError("never compared")


def _model(src, n):
    """Run the module with snapshot := recorder. Returns per test: ("ok", value, contradictory) | ("drop", reason)."""
    import sys
    import types

    cur = {}
    recs = {}

    def factory(*a):
        r = _Rec()
        recs[cur["t"]] = r
        return r

    s2 = src.replace("from inline_snapshot import snapshot\n", "", 1)
    mod = types.ModuleType("c17_model")
    sys.modules[mod.__name__] = mod
    mod.__dict__["snapshot"] = factory
    exec(compile(s2, "<model>", "exec"), mod.__dict__)
    out = []
    for i in range(n):
        cur["t"] = i
        try:
            mod.__dict__["test_%d" % i]()
        except Exception as e:  # noqa  the script fails on its own
            out.append(("drop", "%s: %s" % (type(e).__name__, e)))
            continue
        r = recs.get(i)
        try:
            val = r.value()
        except Exception as e:  # noqa
            out.append(("drop", "model: %s" % e))
            continue
        contra = r.op == "==" and any(v != r.vals[0] for v in r.vals)
        out.append(("drop", "contradictory ==") if contra else ("ok", val))
    return out, mod.__dict__


# a first test that compares values whose deep copy is the object itself (atoms, tuples / frozensets of atoms): whatever the
# library learns from them must not change how the later, mutable values of the same types are recorded
# (the calls are evaluated from strings so that the file keeps one textual snapshot() call per site)
PRIMER = ("\n\ndef test_aa_primer():\n    for v in (1, 'a', None, 1.5, (1, 'a'), (), frozenset([1]), b'x', (1, (2, 'b'))):\n"
          "        assert v == eval('snapshot(%r)' % (v,))\n        assert v in eval('snapshot([%r])' % (v,))\n"
          "    for v in (1, 'a', 1.5, (1, 'a'), (), frozenset([1]), b'x', (1, (2, 'b'))):\n        assert v <= eval('snapshot(%r)' % (v,))\n        assert v >= eval('snapshot(%r)' % (v,))\n\n")


def _judge(cases):
    from ..drivers.inline import run_inline
    from ..gen import programs as P
    from ..oracles.locate import snapshot_calls
    import sys
    import types

    n = len(cases)
    if any(c.get("mode") == "known" for c in cases):
        # first pass: alias-free run of the create version gives the states that will be tested
        src0 = P.module([_site(i, dict(c, _known="")) for i, c in enumerate(cases)], ["DC", "NT"], header="").replace(
            "from inline_snapshot import snapshot\n", "from inline_snapshot import snapshot\n" + NOCOPY, 1) + "\n\n" + HASHMUT
        m0, _ = _model(src0, n)
        cases = [dict(c, _known=("[" + ", ".join([repr(x) for x in m0[i][1]] + ["'never-tested'"]) + "]") if (c.get("mode") == "known" and m0[i][0] == "ok") else "")
                 for i, c in enumerate(cases)]
    src = P.module([_site(i, c) for i, c in enumerate(cases)], ["DC", "NT"], header="") .replace(
        "from inline_snapshot import snapshot\n", "from inline_snapshot import snapshot\n" + NOCOPY + PRIMER, 1) + "\n\n" + HASHMUT
    ctx = {"src": src}
    model, _ = _model(src, n)
    flags = ["create", "fix", "trim"] if any(c.get("mode") == "known" for c in cases) else ["create", "fix"]
    r = run_inline({"test_something.py": src}, flags)
    if r["error"]:
        return [("internal-error", r["error"]["type"] + ": " + r["error"]["msg"][:300])] * n, ctx
    after = r["files"]["test_something.py"]
    ctx["after"] = after
    try:
        calls = snapshot_calls(after, toplevel_only=True)
        before_calls = snapshot_calls(src, toplevel_only=True)
    except SyntaxError as e:
        return [("unparsable", str(e))] * n, ctx
    if len(calls) != n:
        return [("call-count-changed", "%d" % len(calls))] * n, ctx
    mod = types.ModuleType("c17_after")
    sys.modules[mod.__name__] = mod
    try:
        exec(compile(after, "<after>", "exec"), mod.__dict__)
    except Exception as e:  # noqa
        return [("after-module-error", str(e))] * n, ctx
    raised = str(r["raised"] or "")
    out = []
    ctx["dropped"] = []
    for i, c in enumerate(cases):
        if "nocopy" in c:
            # a sub-snapshot may be created as the empty mapping (the key was requested, its value was rejected)
            if "existing" in c:
                if calls[i]["arg_text"].strip() != before_calls[i]["arg_text"].strip():
                    out.append(("non-copyable-value-recorded", "snapshot(%s) -> snapshot(%s)" % (before_calls[i]["arg_text"], calls[i]["arg_text"][:100])))
                elif "UsageError" not in raised:
                    out.append(("no-usage-error-for-non-copyable-value", raised[:200]))
                else:
                    out.append(None)
                continue
            if "prev" in c:
                # other new keys may be created; the rejected value (or a placeholder for it) must not appear under its key
                try:
                    got = eval(calls[i]["arg_text"], mod.__dict__)
                except Exception as e:  # noqa
                    out.append(("written-argument-not-evaluable", "%r: %s" % (calls[i]["arg_text"][:100], e)))
                    continue
                if not isinstance(got, dict) or "k" in got:
                    out.append(("non-copyable-value-recorded", "snapshot(%s) -> snapshot(%s)" % (c["prev"], calls[i]["arg_text"][:120])))
                elif "UsageError" not in raised:
                    out.append(("no-usage-error-for-non-copyable-value", raised[:200]))
                else:
                    out.append(None)
                continue
            if c["nocopy"] == "locked":
                # either the value is rejected (exception, nothing written) or what is written is the comparison-time value
                txt = calls[i]["arg_text"].strip()
                if txt in ("", "{}"):
                    out.append(None if raised else ("no-usage-error-for-non-copyable-value", "nothing written and no exception"))
                elif "3" in txt or ("[1, 2]" not in txt):
                    out.append(("recorded-value-differs-from-comparison-time-value", "wrote snapshot(%s) for Locked(items=[1, 2]) modified by %r after the comparison" % (txt[:120], c["mut"])))
                else:
                    out.append(None)
                continue
            if calls[i]["arg_text"].strip() not in (("", "{}") if c["op"] == "[k]" else ("",)):
                out.append(("non-copyable-value-recorded", "wrote snapshot(%s)" % calls[i]["arg_text"][:100]))
            elif "UsageError" not in raised:
                out.append(("no-usage-error-for-non-copyable-value", raised[:200]))
            else:
                out.append(None)
            continue
        m = model[i]
        if m[0] == "drop":
            ctx["dropped"].append(i)
            out.append(None)
            continue
        try:
            got = eval(calls[i]["arg_text"], mod.__dict__)
        except Exception as e:  # noqa
            out.append(("written-argument-not-evaluable", "%r: %s" % (calls[i]["arg_text"][:100], e)))
            continue
        exp = m[1]
        if c["mode"] == "known" and not c.get("_known"):
            ctx["dropped"].append(i)
            out.append(None)
            continue
        if c["mode"] == "fix" and c["op"] in ("<=", ">="):
            # the previous bound is only replaced when an observed value violates it (trim is not approved in this mode)
            prev = eval((PREV_GE if c["op"] == ">=" else PREV_LE)[c["sh"]], mod.__dict__)
            try:
                if (exp >= prev) if c["op"] == ">=" else (exp <= prev):
                    exp = prev
            except TypeError:
                pass
        if c["mode"] == "fix" and c["op"] == "in":
            exp = [0] + [x for x in exp if x != 0]  # fix appends to the previous list; nothing is trimmed
        if repr(got) != repr(exp):
            out.append(("recorded-value-differs-from-comparison-time-value",
                        "written %s (= %r), alias-free execution gives %r" % (calls[i]["arg_text"].strip()[:120], got, exp)))
        else:
            out.append(None)
    return out, ctx


def run_case(case):
    from ..engine import batch

    return batch.replay(case, _judge)


def run_task(task):
    from ..engine import batch

    r = batch.run_batched(task["cases"], _judge,
                          label=lambda c: "ok:nocopy" if "nocopy" in c else "ok:%s:%s" % (c["op"], c["mode"]),
                          key=lambda c: repr(sorted(c.items())))
    _, ctx = _judge(task["cases"])
    dropped = set(ctx.get("dropped", []))
    keep = set()
    for i, c in enumerate(task["cases"]):
        if i in dropped:
            r["outcomes"]["dropped-by-generator"] = r["outcomes"].get("dropped-by-generator", 0) + 1
            continue
        if "nocopy" in c:
            keep.add(repr(sorted(c.items())))
            continue
        seq = c["seq"]
        first_c = seq.index("C")
        if any(a != "C" for a in seq[first_c + 1 :]):
            keep.add(repr(sorted(c.items())))
    r["nontrivial"] = [k for k in r["nontrivial"] if k in keep]
    return r
