"""C01 - a created snapshot reads back as the observed value.
Space: values(U) x operations x placements x layouts, each an empty snapshot(); one session with {create};
oracle: the call has exactly one argument and re-executing the rewritten module with inline-snapshot
inactive passes the same comparison."""
from __future__ import annotations

import ast

from ..gen import values as G
from ..gen import programs as P

ID = "C01"
LEVEL = "exploration"
RULE = ("bounded-exhaustive enumeration of (value expression, operation, placement, layout); every case is an empty "
        "snapshot() run once with create approved through Example.run_inline and then re-executed with inline-snapshot "
        "inactive; a case is non-trivial when the file really changed, the call gained exactly one argument and the "
        "re-execution evaluated the written expression (test function ran to its end); distinct = distinct "
        "(expr, op, placement, layout) descriptors"
        "; plus real multi-file sessions (every assignment of {plain, hasrepr, external, both, good} to 2-3 files) and empty containers under keys")
ASSUMPTIONS = [
    "classes/enums mentioned by a repr are defined in the module prologue (property: evaluated in the module's own namespace)",
    "HasRepr import is present in in-process cases (run_inline does not add imports; import insertion is checked through the real plugin in C03/C19)",
    "nan and dirty-equals values are outside the alphabet",
]
BATCH = 40


def bounds(tier):
    return {"universe": len(G.universe(tier)), "ops": list(P.OPS), "placements": list(P.PLACEMENTS), "batch": BATCH}


def _cases(tier):
    U = G.universe(tier)
    cases = []
    # (value, ==) over the whole universe, two placements
    for v in U:
        cases.append({"e": [v.expr], "op": "==", "pl": "inline"})
    for v in U:
        cases.append({"e": [v.expr], "op": "==", "pl": "module" if tier == "quick" else "helper"})
    if tier == "thorough":
        for v in U:
            cases.append({"e": [v.expr], "op": "==r", "pl": "module"})
    # full placement x layout product on the atoms
    for pl in P.PLACEMENTS:
        for v in G.A_FULL:
            for clean in (False, True):
                cases.append({"e": [v.expr], "op": "==", "pl": pl, "clean": clean})
            cases.append({"e": [v.expr], "op": "==r", "pl": pl})
    # bounds: orderable values
    ordv = [v for v in U if v.order]
    for op in ("<=", ">="):
        for v in ordv:
            cases.append({"e": [v.expr], "op": op, "pl": "inline"})
        for pl in P.PLACEMENTS:
            for v in [v for v in G.A_FULL if v.order]:
                cases.append({"e": [v.expr], "op": op, "pl": pl})
        # running extreme over several observations of one kind
        nums = ["0", "1", "-1", "1.5", "2**64", "True"]
        strs = ["''", "'a'", "'a\\nb'", "' a'", "'b'"]
        for dom in (nums, strs):
            for a in dom:
                for b in dom:
                    cases.append({"e": [a, b], "op": op, "pl": "inline"})
                    cases.append({"e": [a, b], "op": op, "pl": "local"})
    # membership: sequences of 1..3 tested values (repeats included)
    inv = G.A_FULL if tier == "quick" else G.A_FULL + G.containers(G.A_CORE, 1)
    for v in inv:
        cases.append({"e": [v.expr], "op": "in", "pl": "inline"})
    core = [v.expr for v in G.A_CORE] + ["[0]", "(0,)", "{'a': 0}", "DC(x=1)", "Opaque(1)", "' a '", "Perm(0)"]
    for a in core:
        for b in core:
            cases.append({"e": [a, b], "op": "in", "pl": "inline"})
            cases.append({"e": [a, b], "op": "in", "pl": "module"})
    tri = core[:6] if tier == "quick" else core
    for a in tri:
        for b in tri:
            for c in tri:
                cases.append({"e": [a, b, c], "op": "in", "pl": "local"})
    for pl in P.PLACEMENTS:
        for v in G.A_FULL:
            cases.append({"e": [v.expr, "0"], "op": "in", "pl": pl})
    # sub-snapshots: keys from str/int/tuple/Enum, one or two keys, nested keys
    keys = ["'a'", "'b c'", "0", "-1", "(1, 'x')", "Color.RED", "None", "b'k'", "1.5", "' '"]
    kv = G.A_FULL if tier == "quick" else G.A_FULL + G.containers(G.A_CORE, 1)
    for k in keys:
        for v in kv:
            cases.append({"e": [v.expr], "op": "[k]", "pl": "inline", "k": [k]})
    # empty and almost empty containers as the value under a key (their code equals that of "nothing recorded here")
    empties = ["{}", "[]", "()", "set()", "frozenset()", "''", "b''", "{'a': {}}", "[{}]", "{'a': []}", "({},)", "dict()", "defaultdict(list)", "None", "0", "False"]
    for k in keys[:4]:
        for v in empties:
            cases.append({"e": [v], "op": "[k]", "pl": "inline", "k": [k]})
            cases.append({"e": [v, "1"], "op": "[k]", "pl": "local", "k": [k, "'other'"]})
            cases.append({"e": [v], "op": "[k]", "pl": "local", "k": [[k, "'sub'"]]})
    for v in empties:
        cases.append({"e": [v], "op": "==", "pl": "inline"})
        cases.append({"e": [v], "op": "in", "pl": "inline"})
        cases.append({"e": [v, v], "op": "in", "pl": "local"})
    for k1 in keys:
        for k2 in keys:
            if k1 != k2:
                for v in ("0", "' a '", "[1]", "DC(x=1)"):
                    cases.append({"e": [v, "'z'"], "op": "[k]", "pl": "local", "k": [k1, k2]})
                    cases.append({"e": [v], "op": "[k]", "pl": "local", "k": [[k1, k2]]})
    for pl in P.PLACEMENTS:
        for v in G.A_FULL:
            cases.append({"e": [v.expr, "1"], "op": "[k]", "pl": pl, "k": ["'a'", "0"]})
    return cases


PLUGIN_VALUES = ["Opaque(1)", "[Opaque(1), 0]", "{'k': Opaque(2)}", "outsource('text')", "outsource(b'bytes')",
                 "[outsource('a'), outsource('b')]", "{'k': (outsource('text'), Opaque(1))}", "DC(x=outsource('z'))"]
PLUGIN_HEADERS = {
    "plain": "",
    "nested": "def _helper():\n    from inline_snapshot import HasRepr, external\n\n    return HasRepr, external\n\n\n",
    "tryexcept": "try:\n    from inline_snapshot import HasRepr, external\nexcept ImportError:\n    pass\n\n\n",
    "docfuture": None,
    "multiline": "from os import (\n    path,\n    sep,\n)\n\n\n",
}


def _plugin_cases(tier):
    out = []
    for h in PLUGIN_HEADERS:
        for v in PLUGIN_VALUES:
            for op, pl in (("==", "inline"), ("in", "inline"), ("[k]", "local"), ("==", "module")):
                c = {"e": [v], "op": op, "pl": pl, "hdr": h}
                if op == "[k]":
                    c["k"] = ["'a'"]
                out.append(c)
    return out


def _plugin_module(case):
    src = P.module([_site_src(0, case)], case["e"], ["outsource"] if "outsource" in case["e"][0] else [])
    src = src.replace("from inline_snapshot import HasRepr\n", "")
    h = PLUGIN_HEADERS[case["hdr"]]
    if case["hdr"] == "docfuture":
        return '"""docstring"""\nfrom __future__ import annotations\n' + src
    if case["hdr"] == "tryexcept":
        return h + src
    first, rest = src.split("\n", 1)
    return first + "\n" + rest.replace("\n\n\ndef test_0", "\n\n\n" + h + "def test_0", 1) if h else src


def _judge_plugin(case):
    """Real sessions: create, then the rewritten project must pass with --inline-snapshot=disable."""
    from ..drivers import plugin

    src = _plugin_module(case)
    d = plugin.mk_project({"test_something.py": src, "pyproject.toml": ""})
    try:
        r1 = plugin.session(d, ["--inline-snapshot=create"])
        after = plugin.listing(d, text=True).get("test_something.py", "")
        r2 = plugin.session(d, ["--inline-snapshot=disable"])
    finally:
        plugin.cleanup()
    detail = "\n--- before ---\n%s\n--- after ---\n%s\n--- disable run ---\n%s" % (src[-700:], after[-700:], r2["out"][-700:])
    if plugin.internal_error(r1["out"]) or r1["rc"] not in (0, 1):
        return ("internal-error", "rc=%s %s" % (r1["rc"], r1["out"][-500:]) + detail)
    if after == src:
        return ("not-created", detail)
    got = r2["outcomes"].get("test_something.py::test_0", [])
    if r2["rc"] != 0 or got != ["PASSED"]:
        return ("disabled-rerun-fails", "rc=%s outcomes=%s" % (r2["rc"], got) + detail)
    return None


# several test files in one real session: which files need an added import (and a persisted external) varies with the file order
MULTI_KINDS = {
    "plain": "def test_x():\n    assert [1, 'a'] == snapshot()\n",
    "hasrepr": "class Opq:\n    def __repr__(self):\n        return '<Opq>'\n\n    def __eq__(self, other):\n        return isinstance(other, Opq) or NotImplemented\n\n\ndef test_x():\n    assert [Opq()] == snapshot()\n",
    "external": "def test_x():\n    assert outsource('data-%(i)d') == snapshot()\n",
    "both": "class Opq:\n    def __repr__(self):\n        return '<Opq>'\n\n    def __eq__(self, other):\n        return isinstance(other, Opq) or NotImplemented\n\n\ndef test_x():\n    assert {'k': Opq(), 'e': outsource(b'bin-%(i)d')} == snapshot()\n",
    "good": "def test_x():\n    assert 5 == snapshot(5)\n",
    # one of the two names is imported already (as an earlier session leaves it), the other one is needed now
    "hasrepr-external-imported": "from inline_snapshot import external\n\n\nclass Opq:\n    def __repr__(self):\n        return '<Opq>'\n\n    def __eq__(self, other):\n        return isinstance(other, Opq) or NotImplemented\n\n\ndef test_x():\n    assert [Opq(), outsource('data-%(i)d')] == snapshot()\n",
    "external-hasrepr-imported": "from inline_snapshot import HasRepr\n\n\nclass Opq:\n    def __repr__(self):\n        return '<Opq>'\n\n    def __eq__(self, other):\n        return isinstance(other, Opq) or NotImplemented\n\n\ndef test_x():\n    assert {'e': outsource('data-%(i)d'), 'k': Opq()} == snapshot()\n",
}


def _multi_cases(tier):
    import itertools

    kinds = list(MULTI_KINDS)
    out = []
    for n in ((2, 3) if tier == "quick" else (2, 3, 4)):
        for combo in itertools.product(kinds, repeat=n):
            if not set(combo) & (set(kinds) - {"plain", "good"}) or (n == 4 and tier != "thorough") or (n == 3 and tier == "quick" and len(set(combo)) < 2):
                continue
            out.append({"multi": list(combo)})
    return out


def _judge_multi(case):
    from ..drivers import plugin

    files = {"test_f%d.py" % i: "from inline_snapshot import snapshot, outsource\n\n\n" + MULTI_KINDS[k] % {"i": i} for i, k in enumerate(case["multi"])}
    d = plugin.mk_project(dict(files, **{"pyproject.toml": ""}))
    try:
        r1 = plugin.session(d, ["--inline-snapshot=create"])
        after = plugin.listing(d, text=True)
        r2 = plugin.session(d, ["--inline-snapshot=disable"])
        r3 = plugin.session(d, [])
    finally:
        plugin.cleanup()
    detail = "\n--- after ---\n%s\n--- disable run ---\n%s" % ("\n".join("# %s\n%s" % (k, after.get(k, "")[-400:]) for k in files), r2["out"][-700:])
    if plugin.internal_error(r1["out"]) or r1["rc"] not in (0, 1):
        return ("internal-error", "rc=%s %s" % (r1["rc"], r1["out"][-500:]) + detail)
    for i, k in enumerate(case["multi"]):
        fn = "test_f%d.py" % i
        if k != "good" and after.get(fn) == files[fn]:
            return ("not-created", fn + detail)
        got = r2["outcomes"].get(fn + "::test_x", [])
        if got != ["PASSED"]:
            return ("disabled-rerun-fails", "%s outcomes=%s" % (fn, got) + detail)
    if r2["rc"] != 0:
        return ("disabled-rerun-fails", "rc=%s" % r2["rc"] + detail)
    if r3["rc"] != 0:
        return ("plain-rerun-fails", "rc=%s %s" % (r3["rc"], r3["out"][-500:]) + detail)
    return None


# classes defined inside the test function, directly or inside a class / a function defined there: the written name has to be the
# part of the qualified name that is in scope at the call site (`test_0.<locals>.NS.Color` -> `NS.Color`)
LOCAL_KINDS = {
    "enum": ("import enum\nclass Color(enum.Enum):\n    red = 1\n    blue = 2\n", "{Q}Color.blue"),
    "flag": ("import enum\nclass Perm(enum.Flag):\n    R = 1\n    W = 2\n", "{Q}Perm.R | {Q}Perm.W"),
    "type": ("class Kx:\n    pass\n", "{Q}Kx"),
    "hasrepr": ("class Thing:\n    def __repr__(self):\n        return '<thing>'\n    def __eq__(self, o):\n        return type(o).__name__ == 'Thing' or NotImplemented\n    __hash__ = None\n", "{Q}Thing()"),
    "dataclass": ("import dataclasses\n@dataclasses.dataclass\nclass Pt:\n    x: int\n    y: int = 0\n", "{Q}Pt(x=1, y=2)"),
    "namedtuple": ("import typing\nclass NTl(typing.NamedTuple):\n    a: int\n    b: int = 0\n", "{Q}NTl(a=1, b=2)"),
}
LOCAL_NESTS = ("function", "class-in-function", "class-in-class-in-function", "function-in-function", "class-in-function-in-function")
LOCAL_OPS = ("==", "in-list", "[k]")


def _ind(text, n):
    return "".join(("    " * n + l if l.strip() else l) for l in text.splitlines(True))


def _local_module(case):
    defs, expr = LOCAL_KINDS[case["loc"]]
    nest = case["nest"]
    q = {"function": "", "class-in-function": "NS.", "class-in-class-in-function": "NS.Sub.", "function-in-function": "", "class-in-function-in-function": "NS."}[nest]
    expr = expr.replace("{Q}", q)
    site = {"==": "assert [%s, 1] == snapshot()\n" % expr, "in-list": "assert %s in snapshot()\n" % expr,
            "[k]": "s = snapshot()\nassert s['k'] == {'v': %s}\n" % expr}[case["op"]]
    if nest in ("function", "function-in-function"):
        body = defs + site
    elif nest in ("class-in-function", "class-in-function-in-function"):
        body = "class NS:\n" + _ind(defs, 1) + site
    else:
        body = "class NS:\n    class Sub:\n" + _ind(defs, 2) + site
    if nest.endswith("function-in-function"):
        body = "def inner():\n" + _ind(body, 1) + "inner()\n"
    return "from inline_snapshot import snapshot\n\n\ndef test_0():\n" + _ind(body, 1)


def _local_cases(tier):
    return [{"loc": k, "nest": n, "op": op} for k in LOCAL_KINDS for n in LOCAL_NESTS for op in LOCAL_OPS]


def _judge_local(case):
    """Real sessions: create, then the rewritten file must pass with --inline-snapshot=disable and without a flag."""
    from ..drivers import plugin

    src = _local_module(case)
    d = plugin.mk_project({"test_something.py": src, "pyproject.toml": ""})
    try:
        r1 = plugin.session(d, ["--inline-snapshot=create"])
        after = plugin.listing(d, text=True).get("test_something.py", "")
        r2 = plugin.session(d, ["--inline-snapshot=disable"])
        r3 = plugin.session(d, [])
    finally:
        plugin.cleanup()
    detail = "\n--- before ---\n%s\n--- after ---\n%s\n--- disable run ---\n%s" % (src[-900:], after[-900:], r2["out"][-700:])
    if plugin.internal_error(r1["out"]) or r1["rc"] not in (0, 1):
        return ("internal-error", "rc=%s %s" % (r1["rc"], r1["out"][-500:]) + detail)
    if after == src or "snapshot()" in after:
        return ("not-created", detail)
    for r, what in ((r2, "disabled-rerun-fails"), (r3, "plain-rerun-fails")):
        got = r["outcomes"].get("test_something.py::test_0", [])
        if r["rc"] != 0 or got != ["PASSED"]:
            return (what, "rc=%s outcomes=%s" % (r["rc"], got) + detail)
    return None


def build(tier, seed):
    cases = _cases(tier)
    groups = {}
    for c in cases:
        groups.setdefault(bool(c.get("clean")), []).append(c)
    tasks = []
    for clean, cs in sorted(groups.items()):
        for i in range(0, len(cs), BATCH):
            tasks.append({"cases": cs[i : i + BATCH], "clean": clean})
    pc = _plugin_cases(tier)
    for i in range(0, len(pc), 5):
        tasks.append({"plugin": pc[i : i + 5]})
    mc = _multi_cases(tier)
    for i in range(0, len(mc), 5):
        tasks.append({"multi": mc[i : i + 5]})
    lc = _local_cases(tier)
    for i in range(0, len(lc), 5):
        tasks.append({"local": lc[i : i + 5]})
    return tasks


def _site_src(i, c):
    return P.site(i, c["op"], c["e"], placement=c["pl"], keys=c.get("k"))


def _module(cases, clean):
    exprs = []
    for c in cases:
        exprs += c["e"]
        for k in c.get("k") or []:
            exprs += k if isinstance(k, list) else [k]
    needs = ["HasRepr"] if any("Opaque" in e or "Flk" in e for e in exprs) else []
    return P.module([_site_src(i, c) for i, c in enumerate(cases)], exprs, needs, clean=clean)


def _judge(cases, clean):
    """Run one file holding the given cases. Returns per-case verdict list: None (ok) or (what, detail)."""
    from ..drivers.inline import run_inline, reexec
    from ..oracles.locate import snapshot_calls

    src = _module(cases, clean)
    before_calls = snapshot_calls(src)
    assert len(before_calls) == len(cases), "generator: one call per site"
    r = run_inline({"test_something.py": src}, ["create"])
    verdicts = [None] * len(cases)
    if r["error"]:
        return [("internal-error", r["error"]["type"] + ": " + r["error"]["msg"][:300])] * len(cases), src, r
    after = r["files"]["test_something.py"]
    try:
        after_calls = snapshot_calls(after)
    except SyntaxError as e:
        return [("unparsable", str(e))] * len(cases), src, r
    if len(after_calls) != len(before_calls):
        return [("call-count-changed", "%d -> %d" % (len(before_calls), len(after_calls)))] * len(cases), src, r
    rx = reexec({"test_something.py": after})["test_something.py"]
    if rx["module_error"]:
        return [("reexec-module-error", rx["module_error"])] * len(cases), src, r
    for i, c in enumerate(cases):
        ac = after_calls[i]
        if ac["nargs"] != 1 or ac["node"].keywords:
            verdicts[i] = ("not-created", "call text after create: snapshot(%s)" % ac["arg_text"][:200])
            continue
        res = rx["tests"].get("test_%d" % i, "missing")
        if res is not None:
            verdicts[i] = ("reexec-fails", "written: snapshot(%s) ; re-execution: %s" % (ac["arg_text"][:300], res))
    return verdicts, src, r


def run_case(case):
    if "batch" in case:
        # a site that is wrong only in the file it shares with the other sites of its batch
        vs, src, r = _judge(case["batch"], bool(case.get("clean")))
        bv = vs[case["index"]]
        return [] if bv is None else [{"case": case, "what": "only-next-to-other-sites:" + bv[0], "detail": bv[1][:600]}]
    if "multi" in case:
        v = _judge_multi(case)
        return [{"case": case, "what": v[0], "detail": v[1]}] if v else []
    if "loc" in case:
        v = _judge_local(case)
        return [{"case": case, "what": v[0], "detail": v[1]}] if v else []
    if "hdr" in case:
        v = _judge_plugin(case)
        return [{"case": case, "what": v[0], "detail": v[1]}] if v else []
    v, src, r = _judge([case], bool(case.get("clean")))
    if v[0] is None:
        return []
    return [{"case": case, "what": v[0][0], "detail": v[0][1], "sig": _sig(case, v[0])}]


def _sig(case, verdict):
    return None


def run_task(task):
    if "multi" in task:
        out = {"n": 0, "nontrivial": [], "outcomes": {}, "violations": [], "samples": []}
        for c in task["multi"]:
            out["n"] += 1
            vs = run_case(c)
            lab = "viol:" + vs[0]["what"] if vs else "ok:multi-file-session"
            out["violations"] += vs
            if not vs:
                out["nontrivial"].append("multi|%s" % "|".join(c["multi"]))
            out["outcomes"][lab] = out["outcomes"].get(lab, 0) + 1
        return out
    if "local" in task:
        out = {"n": 0, "nontrivial": [], "outcomes": {}, "violations": [], "samples": []}
        for c in task["local"]:
            out["n"] += 1
            vs = run_case(c)
            lab = "viol:" + vs[0]["what"] if vs else "ok:local-class:" + c["nest"]
            out["violations"] += vs
            if not vs:
                out["nontrivial"].append("local|%s|%s|%s" % (c["loc"], c["nest"], c["op"]))
            out["outcomes"][lab] = out["outcomes"].get(lab, 0) + 1
        out["samples"].append({"local_case": task["local"][0], "module": _local_module(task["local"][0])})
        return out
    if "plugin" in task:
        out = {"n": 0, "nontrivial": [], "outcomes": {}, "violations": [], "samples": []}
        for c in task["plugin"]:
            out["n"] += 1
            vs = run_case(c)
            lab = "viol:" + vs[0]["what"] if vs else "ok:plugin:" + c["hdr"]
            out["violations"] += vs
            if not vs:
                out["nontrivial"].append("plugin|%s|%s|%s|%s" % (c["e"], c["op"], c["pl"], c["hdr"]))
            out["outcomes"][lab] = out["outcomes"].get(lab, 0) + 1
        out["samples"].append({"plugin_case": task["plugin"][0], "module": _plugin_module(task["plugin"][0])})
        return out
    cases = task["cases"]
    clean = task["clean"]
    out = {"n": 0, "nontrivial": [], "outcomes": {}, "violations": [], "samples": []}
    verdicts, src, r = _judge(cases, clean)
    for i, (c, v) in enumerate(zip(cases, verdicts)):
        out["n"] += 1
        key = "%s|%s|%s|%s|%s" % (c["e"], c["op"], c["pl"], c.get("k"), clean)
        if v is not None:
            # judge the site alone so that sites cannot influence each other's verdict
            single = run_case(c)
            if not single:
                # right in a file of its own, wrong in this file: the file with all its sites is a test program too
                out["outcomes"]["ok-alone-only"] = out["outcomes"].get("ok-alone-only", 0) + 1
                out["violations"].append({"case": {"batch": cases, "index": i, "clean": clean}, "what": "only-next-to-other-sites:" + v[0],
                                          "detail": "site %d of %d: %s\n--- site ---\n%s" % (i, len(cases), v[1][:600], _site_src(i, c))})
                v = None
            else:
                out["violations"] += single
                lab = "viol:" + single[0]["what"]
                out["outcomes"][lab] = out["outcomes"].get(lab, 0) + 1
                continue
        out["nontrivial"].append(key)
        lab = "ok:%s:%s" % (c["op"], c["pl"])
        out["outcomes"][lab] = out["outcomes"].get(lab, 0) + 1
    if not out["samples"]:
        out["samples"].append({"case": cases[0], "site_source": _site_src(0, cases[0])})
    return out
