"""C12 - every string is written as a literal that reads back identically.
All str up to a length bound over an adversarial alphabet (and all bytes up to length 3 over 8 byte values)
x position x formatter configuration; oracle: ast.literal_eval of the argument text found in the rewritten
file (located independently) equals the original, and the re-executed test passes."""
from __future__ import annotations

import ast
import itertools

from ..engine import batch

ID = "C12"
LEVEL = "exploration"
ALPHA_Q = ["a", " ", "\n", "\r", "\t", "'", '"', "\\", "\x00", "é", " ", "🐍"]
ALPHA_T = ["a", " ", "\n", "\r", "'", '"', "\\", "\x00", "é", "{"]
BYTES = [b"a", b" ", b"\n", b"'", b'"', b"\\", b"\x00", b"\xff"]
BOUNDARY = ["", " ", "  ", "\n", "\n\n", "'", '"', "\\", "'''", '"""', " \n", "\n ", "\\\n", "\r\n", "\t", "'\"", "\"'"]
RULE = ("all strings of length <= L over the alphabet (quick L=3 in every position/formatter, L=4 as whole snapshot; thorough "
        "L=5 over 10 chars plus all p+core+q with p,q from a 17-element boundary set), all bytes of length <= 3 over 8 byte "
        "values; positions: whole snapshot, list element, dict key+value, dataclass field, `in` member, sub-snapshot key+value, "
        "fix of a previous literal; formatter: black, black not importable, format-command (real plugin sessions); "
        "non-trivial = the call gained an argument whose literal_eval equals the original and the re-execution passed; "
        "distinct = (string, position, formatter)"
        '; plus all ordered pairs of strings over {\', ", a, backslash} (length <= 3) as fix')
ASSUMPTIONS = ["the test computes the observed string from Python's own repr() of it",
               "format-command cases run through real pytest sessions because run_inline does not read pyproject.toml"]
BATCH = 60
POS = ("whole", "list", "dict", "dc", "in", "sub", "fix")


def bounds(tier):
    return {"alphabet": [repr(c) for c in (ALPHA_Q if tier == "quick" else ALPHA_T)], "bytes_alphabet": len(BYTES),
            "positions": list(POS), "formatters": ["black", "noblack", "format-command=cat", "format-command=black"]}


_SQ, _DQ = chr(39), chr(34)
QBLOCKS = [_SQ * 1, _SQ * 2, _SQ * 3, _SQ * 4, _SQ * 5, _SQ * 6, _DQ * 1, _DQ * 2, _DQ * 3, _DQ * 5, "\n", "a", "\\", " "]


def _quote_runs(tier):
    """Runs of quote characters of every length up to 6 around line ends (the triple-quoted spelling has to escape them)."""
    out = []
    for k in range(2, (4 if tier == "quick" else 5) + 1):
        for t in itertools.product(QBLOCKS if k <= 4 else QBLOCKS[:11], repeat=k):
            if "\n" in t and not any(a == b and a in ("a", "\n") for a, b in zip(t, t[1:])):
                out.append({"s": "".join(t), "pos": "whole" if k % 2 == 0 else "list", "fmt": "black"})
    return out


def _strings(alpha, n):
    out = []
    for k in range(0, n + 1):
        out += ["".join(t) for t in itertools.product(alpha, repeat=k)]
    return out


def _cases(tier):
    cases = []
    if tier == "quick":
        s3 = _strings(ALPHA_Q, 3)
        for pos in POS:
            for fm in ("black", "noblack"):
                src = s3 if (pos in ("whole", "list", "sub") or fm == "black") else _strings(ALPHA_Q, 2)
                cases += [{"s": s, "pos": pos, "fmt": fm} for s in src]
        cases += [{"s": s, "pos": "whole", "fmt": "black"} for s in _strings(ALPHA_Q, 4) if len(s) == 4]
        cases += [{"s": p + "ab" + q, "pos": "whole", "fmt": "black"} for p in BOUNDARY for q in BOUNDARY]
        for core in ("a\nb", "\n", "x\n\ny"):
            cases += [{"s": p + core + q, "pos": pos, "fmt": "black"} for p in BOUNDARY for q in BOUNDARY for pos in ("whole", "list")]
    else:
        s5 = _strings(ALPHA_T, 5)
        cases += [{"s": s, "pos": "whole", "fmt": "black"} for s in s5]
        s4 = _strings(ALPHA_Q, 4)
        for pos in POS:
            for fm in ("black", "noblack"):
                cases += [{"s": s, "pos": pos, "fmt": fm} for s in (s4 if pos in ("whole", "list") else _strings(ALPHA_Q, 3))]
        for core in ("", "a", "a\nb", "é"):
            for pos in ("whole", "list", "dict"):
                cases += [{"s": p + core + q, "pos": pos, "fmt": "black"} for p in BOUNDARY for q in BOUNDARY]
    cases += _quote_runs(tier)
    # fix from one string to another that differs only in quote kinds / backslashes (the previous literal as a session would have left it)
    qa = [x for x in _strings(["'", '"', "a", "\\"], 3) if x]
    for old in qa:
        for new in qa:
            if old != new and (tier != "quick" or sorted(old.replace('"', "'")) == sorted(new.replace('"', "'")) or len(old) + len(new) <= 3):
                cases.append({"s": new, "old": old, "pos": "fixfrom", "fmt": "black"})
                cases.append({"s": new, "old": old, "pos": "fixfromlist", "fmt": "black" if tier == "quick" else "noblack"})
    for x in _strings(ALPHA_Q, 2) + [p + "ab" + q for p in BOUNDARY[:9] for q in BOUNDARY[:9]]:
        for pos in ("parins", "pardel", "pardict"):
            cases.append({"s": x, "pos": pos, "fmt": "black"})
            if len(x) <= 1:
                cases.append({"s": x, "pos": pos, "fmt": "noblack"})
                # the same literal under two layers of redundant parentheses
                cases.append({"s": x, "pos": pos, "fmt": "black", "layers": 2})
                cases.append({"s": x, "pos": pos, "fmt": "noblack", "layers": 2})
    b3 = []
    for k in range(0, 4):
        b3 += [b"".join(t) for t in itertools.product(BYTES, repeat=k)]
    for pos in ("whole", "list") if tier == "quick" else POS:
        for fm in ("black", "noblack"):
            cases += [{"b": list(b), "pos": pos, "fmt": fm} for b in b3]
    return cases


def _hist_cases(tier):
    strs = [x for x in _strings(ALPHA_Q, 3) if "\n" in x or "\r" in x or "é" in x or "🐍" in x or "\u2028" in x][:: (1 if tier != "quick" else 2)]
    strs += [p + "a\nb" + q for p in BOUNDARY[:8] for q in BOUNDARY[:8]]
    out = []
    for x in strs:
        for kind in ("del-after", "ins-after", "fix-after", "dict-del", "tuple-ins"):
            out.append({"s": x, "hist": kind})
    return out


HIST = {  # kind: (container built in run 1, observed value in run 2); S is the string
    "del-after": ("['x', S, 'tail', 1]", "['x', S, 1]"),
    "ins-after": ("['x', S, 'tail']", "['x', S, 'new', 'tail']"),
    "fix-after": ("[S, 'tail']", "[S, 'other']"),
    "dict-del": ("{'k1': S, 'k2': 2, 'k3': 3}", "{'k1': S, 'k3': 3}"),
    "tuple-ins": ("(S,)", "(S, 0)"),
}


def _judge_hist(cases):
    """Two sessions: create, then fix a sibling of the (multi-line / non-ASCII) literal written by the first session."""
    from ..drivers.inline import run_inline, reexec
    from ..gen import programs as P

    n = len(cases)
    src1 = "from inline_snapshot import snapshot\n\n\n" + "\n\n".join(
        "S%d = %r\nOBS%d = [%s]\n\n\ndef test_%d():\n    assert OBS%d[0] == snapshot()\n" % (
            i, c["s"], i, HIST[c["hist"]][0].replace("S", "S%d" % i), i, i) for i, c in enumerate(cases))
    ctx = {"src": src1}
    r1 = run_inline({"test_something.py": src1}, ["create"])
    if r1["error"]:
        return [("internal-error", "run 1: " + r1["error"]["type"] + ": " + r1["error"]["msg"][:300])] * n, ctx
    mid = r1["files"]["test_something.py"]
    src2 = mid
    for i, c in enumerate(cases):
        src2 = src2.replace("OBS%d = [%s]" % (i, HIST[c["hist"]][0].replace("S", "S%d" % i)), "OBS%d = [%s]" % (i, HIST[c["hist"]][1].replace("S", "S%d" % i)), 1)
    ctx["src"] = src2
    r2 = run_inline({"test_something.py": src2}, ["fix"])
    if r2["error"]:
        return [("internal-error", "run 2: " + r2["error"]["type"] + ": " + r2["error"]["msg"][:300])] * n, ctx
    after = r2["files"]["test_something.py"]
    ctx["after"] = after
    try:
        rx = reexec({"test_something.py": after})["test_something.py"]
    except Exception as e:  # noqa
        return [("unparsable", str(e))] * n, ctx
    if rx["module_error"]:
        return [("reexec-module-error", rx["module_error"])] * n, ctx
    out = []
    for i, c in enumerate(cases):
        t = rx["tests"].get("test_%d" % i, "missing")
        out.append(None if t is None else ("literal-lost-when-a-sibling-is-edited", "test_%d: %s" % (i, t)))
    return out, ctx


def _plugin_cases(tier):
    s = _strings(ALPHA_Q, 3 if tier == "quick" else 4)
    out = [{"s": x, "pos": "whole", "fmt": "cmd:cat"} for x in s]
    out += [{"s": x, "pos": "dict", "fmt": "cmd:cat"} for x in _strings(ALPHA_Q, 2)]
    out += [{"s": x, "pos": "whole", "fmt": "cmd:black"} for x in _strings(ALPHA_Q, 2)]
    out += [{"s": p + "a" + q, "pos": "whole", "fmt": "cmd:black"} for p in BOUNDARY for q in BOUNDARY]
    # a format-command that removes trailing blanks from every line (the layout of multi-line literals protects them)
    sp = [x for x in _strings(["a", " ", "\n", "\\"], 4 if tier == "quick" else 5) if " " in x]
    out += [{"s": x, "pos": "whole", "fmt": "cmd:stripsp"} for x in sp]
    out += [{"s": x, "pos": pos, "fmt": "cmd:stripsp"} for x in sp if len(x) <= 3 for pos in ("list", "dict", "fix")]
    # test files in a single-byte source encoding (PEP 263 cookie) and with a byte order mark: non-ASCII characters are written raw
    for enc, extra in (("latin-1", "\xa4"), ("cp1252", "\u20ac"), ("utf-8-sig", "\U0001f40d")):
        al = ["a", "\xe9", "\xdf", "\n", "'", extra]
        for x in _strings(al, 3 if tier == "quick" else 4):
            if any(ord(ch) > 127 for ch in x):
                out.append({"s": x, "pos": "whole", "fmt": "enc:" + enc})
                if len(x) <= 2:
                    out += [{"s": x, "pos": pos, "fmt": "enc:" + enc} for pos in ("list", "dict", "sub", "fix")]
    return out


def build(tier, seed):
    tasks = []
    groups = {}
    for c in _cases(tier):
        groups.setdefault(c["fmt"], []).append(c)
    for fm, cs in sorted(groups.items()):
        for i in range(0, len(cs), BATCH):
            tasks.append({"cases": cs[i : i + BATCH], "fmt": fm})
    hc = _hist_cases(tier)
    for i in range(0, len(hc), 30):
        tasks.append({"cases": hc[i : i + 30], "fmt": "hist"})
    groups = {}
    for c in _plugin_cases(tier):
        groups.setdefault(c["fmt"], []).append(c)
    for fm, cs in sorted(groups.items()):
        n = 300 if fm == "cmd:cat" else 100
        for i in range(0, len(cs), n):
            tasks.append({"cases": cs[i : i + n], "fmt": fm})
    return tasks


def _val(c):
    return c["s"] if "s" in c else bytes(c["b"])


def _site(i, c):
    r = repr(_val(c))
    pos = c["pos"]
    if pos == "whole":
        body = "assert %s == snapshot()" % r
    elif pos == "list":
        body = "assert [0, %s] == snapshot()" % r
    elif pos == "dict":
        body = "assert {%s: %s} == snapshot()" % (r, r)
    elif pos == "dc":
        body = "assert DC(x=%s) == snapshot()" % r
    elif pos == "in":
        body = "assert %s in snapshot()" % r
    elif pos == "sub":
        body = "assert snapshot()[%s] == %s" % (r, r)
    elif pos == "fix":
        body = "assert %s == snapshot('old' 'er')" % r
    elif pos in ("parins", "pardel", "pardict"):
        # the literal as a hand-wrapped implicit concatenation: parentheses on lines of their own, a sibling is inserted / deleted next to it
        v = _val(c)
        h = len(v) // 2
        lit = "(\n            %r\n            %r\n        )" % (v[:h], v[h:])
        if c.get("layers") == 2:
            lit = "(" + lit + ")"
        if pos == "parins":
            body = "assert [%s, 'new', 'tail'] == snapshot(\n        [\n        %s,\n        'tail',\n        ]\n    )" % (r, lit)
        elif pos == "pardel":
            body = "assert ['head', %s] == snapshot(\n        [\n        'head',\n        %s,\n        'gone',\n        ]\n    )" % (r, lit)
        else:
            body = "assert {'k': %s, 'z': 1} == snapshot(\n        {\n        'k': %s,\n        }\n    )" % (r, lit)
    elif pos == "fixfrom":
        body = "assert %s == snapshot(%r)" % (r, c["old"])
    elif pos == "fixfromlist":
        body = "assert [0, %s, 'z'] == snapshot([0, %r, 'z'])" % (r, c["old"])
    return "def test_%d():\n    %s\n" % (i, body)


def _expected(c):
    v = _val(c)
    pos = c["pos"]
    if pos in ("whole", "fix", "fixfrom"):
        return v
    if pos == "fixfromlist":
        return [0, v, "z"]
    if pos == "parins":
        return [v, "new", "tail"]
    if pos == "pardel":
        return ["head", v]
    if pos == "pardict":
        return {"k": v, "z": 1}
    if pos == "list":
        return [0, v]
    if pos in ("dict", "sub"):
        return {v: v}
    if pos == "in":
        return [v]
    return None  # dataclass: re-execution only


def _analyze(c, i, before, after, rx, ctx):
    if after["nargs"] != 1:
        return ("not-created", "snapshot(%s)" % after["arg_text"][:200])
    exp = _expected(c)
    if exp is not None:
        try:
            got = ast.literal_eval(after["arg_text"].strip())
        except Exception as e:  # noqa
            return ("literal-not-evaluable", "%r -> %s: %s" % (after["arg_text"][:200], type(e).__name__, e))
        if got != exp or type(got) is not type(exp):
            return ("literal-differs", "wrote %r which evaluates to %r, expected %r" % (after["arg_text"][:200], got, exp))
    if rx is not None:
        return ("reexec-fails", "wrote snapshot(%r): %s" % (after["arg_text"][:200], rx))
    return None


def _judge_factory(fmt):
    def pre():
        if fmt == "noblack":
            import sys

            sys.modules["black"] = None

    def judge(cases):
        if fmt == "hist":
            return _judge_hist(cases)
        if fmt.startswith(("cmd:", "enc:")):
            return _judge_plugin(cases, fmt)
        return batch.one_file(cases, _site, lambda c: ["DC"] if c["pos"] == "dc" else [], ["create", "fix"], _analyze, pre=pre)

    return judge


def _judge_plugin(cases, fmt):
    """format-command configured: real session, whole file piped through the command."""
    from ..drivers import plugin
    from ..drivers.inline import reexec
    from ..gen import programs as P
    from ..oracles.locate import snapshot_calls
    import sys

    cmd = {"cmd:cat": "cat", "cmd:stripsp": "sed -e 's/ *$//'"}.get(fmt, "%s -m black -q -" % sys.executable)
    src = P.module([_site(i, c) for i, c in enumerate(cases)], ["DC"] if any(c["pos"] == "dc" for c in cases) else [])
    ctx = {"src": src}
    n = len(cases)
    codec = "utf-8"
    pp = '[tool.inline-snapshot]\nformat-command="%s"\n' % cmd
    raw = src
    if fmt.startswith("enc:"):
        codec = fmt[4:]
        pp = ""
        if codec != "utf-8-sig":
            # the observed values are spelled with escapes in the test (repr of a str keeps printable non-ASCII characters raw)
            src = "# -*- coding: %s -*-\n" % codec + src
        raw = src.encode(codec)
    d = plugin.mk_project({"test_something.py": raw, "pyproject.toml": pp})
    try:
        r = plugin.session(d, ["--inline-snapshot=create,fix"], timeout=300)
        rawafter = plugin.listing(d)["test_something.py"]
    finally:
        plugin.cleanup()
    try:
        after = rawafter.decode(codec)
    except UnicodeDecodeError as e:
        return [("file-no-longer-in-its-declared-encoding", "%s: %s" % (codec, e))] * n, ctx
    ctx["after"] = after
    if plugin.internal_error(r["out"]) or r["rc"] not in (0, 1):
        return [("internal-error", "rc=%s %s" % (r["rc"], r["out"][-600:]))] * n, ctx
    if "Problems" in r["out"]:
        return [("formatter-problem-reported", r["out"][-600:])] * n, ctx
    try:
        calls = snapshot_calls(after, toplevel_only=True)
    except SyntaxError as e:
        return [("unparsable", str(e))] * n, ctx
    if len(calls) != n:
        return [("call-count-changed", "%d -> %d" % (n, len(calls)))] * n, ctx
    rx = reexec({"test_something.py": after})["test_something.py"]
    if rx["module_error"]:
        return [("reexec-module-error", rx["module_error"])] * n, ctx
    return [_analyze(c, i, None, calls[i], rx["tests"].get("test_%d" % i, "missing"), ctx) for i, c in enumerate(cases)], ctx


def run_case(case):
    return batch.replay(case, _judge_factory("hist" if "hist" in case else case["fmt"]))


def run_task(task):
    return batch.run_batched(task["cases"], _judge_factory(task["fmt"]),
                             label=lambda c: "ok:hist:" + c["hist"] if "hist" in c else "ok:%s:%s:%s" % (c["pos"], c["fmt"], "bytes" if "b" in c else "str"),
                             key=lambda c: repr((c.get("s"), c.get("b"), c.get("pos"), c.get("fmt"), c.get("hist"), c.get("old"))), strict_batch=True)
