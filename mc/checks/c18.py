"""C18 - end-of-session processing completes for every test program.
"Something went wrong earlier" program shapes x all 16 approved sets, in both drivers.  Oracle: run_inline returns
(only the test's own exceptions, captured through `raises`), the real plugin shows no INTERNALERROR / traceback
from the finish hook and exits with status 0 or 1; the resulting files parse."""
from __future__ import annotations

import ast
import itertools

ID = "C18"
LEVEL = "exploration"
RULE = ("program shapes: failing comparison before/after other sites; exception before/between/after snapshot evaluations; "
        "snapshot assigned but never compared; inner snapshot whose parent is replaced / fixed in place / shortened / deleted with "
        "the inner one needing create / fix / update; inner snapshot reached only during list alignment; comparisons that raise "
        "(TypeError of the values, __eq__ that raises, values that cannot be copied); sub-snapshot keys accessed but never "
        "compared; mixed operations; layout variants of the container end; each x 16 approved sets through Example.run_inline "
        "and a slice through real pytest sessions; pairs of shapes in one file (thorough: all pairs); non-trivial = the session "
        "had at least one pending change or a raising test and still finished; distinct = (shape(s), approved set, driver)"
        "; plus sessions started outside the project, the same data outsourced at several sites / files, star-expressions in never-compared snapshots")
ASSUMPTIONS = ["`in` only on list displays and s[k] only on dict displays (documented usage)"]
CATS = ("create", "fix", "trim", "update")
FS = [list(c) for n in range(5) for c in itertools.combinations(CATS, n)]
TASK_TIMEOUT = 900

PRE = (
    "from inline_snapshot import snapshot, outsource, external\n\n\n"
    "class Boom:\n    def __eq__(self, other):\n        raise ValueError('boom')\n    def __repr__(self):\n        return 'Boom()'\n\n\n"
    "class Ident:\n    pass\n\n\n"
    "def make():\n    from dataclasses import make_dataclass\n    return make_dataclass('Made', ['q'])(q=[1])\n\n\n"
)

SHAPES = {
    # failing comparison before / after other sites
    "fail-then-empty": ["assert 1 == snapshot(2)", "assert 3 == snapshot()"],
    "empty-then-fail": ["assert 3 == snapshot()", "assert 1 == snapshot(2)"],
    "fail-then-trim": ["assert 1 == snapshot(2)", "assert 3 <= snapshot(9)", "assert 4 in snapshot([4, 5])"],
    "ok-then-assert-false": ["assert 1 == snapshot(1)", "assert False"],
    "fix-then-assert-false": ["assert 1 == snapshot(2)", "assert False", "assert 2 == snapshot()"],
    # exceptions before / between / after
    "raise-first": ["raise ValueError('x')", "assert 1 == snapshot()"],
    "raise-between": ["assert 1 == snapshot()", "raise ValueError('x')", "assert 2 == snapshot(3)"],
    "raise-after": ["assert 1 == snapshot(2)", "assert 2 <= snapshot()", "raise ValueError('x')"],
    "assigned-then-raise": ["s = snapshot(5)", "raise ValueError('x')"],
    "empty-assigned-then-raise": ["s = snapshot()", "raise ValueError('x')"],
    # never compared
    "never-compared-list": ["s = snapshot([1, 2+0])"],
    "never-compared-dict": ["s = snapshot({'a': 1+0, 'b': [2+0]})"],
    "never-compared-empty": ["s = snapshot()"],
    "never-compared-two-leaves": ["s = snapshot([1+0, 2+0, (3+0,)])"],
    "never-compared-call": ["s = snapshot(dict(a=1+0))"],
    # never compared, and the argument is no display / constructor call written in place
    "never-compared-name-dataclass": ["v = DC(x=1, y=2)", "s = snapshot(v)"],
    "never-compared-name-list": ["v = [1, [2]]", "s = snapshot(v)"],
    "never-compared-name-dict": ["v = {'a': (1,)}", "s = snapshot(v)"],
    "never-compared-attr": ["import types", "ns = types.SimpleNamespace(v=DC(x=[1]))", "s = snapshot(ns.v)"],
    "never-compared-helper-call": ["s = snapshot(make())"],
    "never-compared-defaultdict": ["from collections import defaultdict", "s = snapshot(defaultdict(list))"],
    "never-compared-defaultdict-filled": ["from collections import defaultdict", "s = snapshot(defaultdict(list, {'a': [1]}))"],
    # classes defined inside the test function (their __qualname__ holds "<locals>")
    "local-class-hasrepr-create": ["class User:", "    def __repr__(self):", "        return '<User 1>'", "    def __eq__(self, o):", "        return isinstance(o, User) or NotImplemented", "assert User() == snapshot()"],
    "local-class-hasrepr-update": ["from inline_snapshot import HasRepr", "class User:", "    def __repr__(self):", "        return '<User 1>'", "    def __eq__(self, o):", "        return isinstance(o, User) or NotImplemented",
                                   "assert [User(), 1] == snapshot([HasRepr(User, '<User 1>'), 2])"],
    "local-enum-create": ["import enum", "class Col(enum.Enum):", "    RED = 1", "assert [Col.RED] == snapshot()", "assert Col.RED in snapshot([])"],
    "local-flag-fix": ["import enum", "class Perm2(enum.Flag):", "    R = 1", "    W = 2", "assert (Perm2.R | Perm2.W) == snapshot(0)", "assert Perm2(0) == snapshot()"],
    "local-dataclass-create": ["from dataclasses import dataclass", "@dataclass", "class Pt:", "    x: int", "    y: int = 0", "assert Pt(1, 2) == snapshot()", "assert {'k': Pt(1)} == snapshot({'k': Pt(x=2)})"],
    "local-type-create": ["class K:", "    pass", "assert K == snapshot()", "assert [K, int] == snapshot([int])"],
    "local-namedtuple-fix": ["from collections import namedtuple", "NT2 = namedtuple('NT2', 'a b')", "assert NT2(1, 2) == snapshot(NT2(a=1, b=3))"],
    # one textual call inside a finally block, reached through both of its bytecode copies (normal exit and exception)
    "finally-both-paths-fix": ["def site(fail):", "    try:", "        if fail:", "            raise ValueError('x')", "    finally:", "        _ok = 5 == snapshot(4)",
                               "site(False)", "try:", "    site(True)", "except ValueError:", "    pass"],
    "finally-both-paths-create": ["def site(fail):", "    try:", "        if fail:", "            raise ValueError('x')", "    finally:", "        _ok = [1, 2] == snapshot()",
                                  "try:", "    site(True)", "except ValueError:", "    pass", "site(False)"],
    "finally-both-paths-bound": ["def site(v):", "    try:", "        if v > 5:", "            raise ValueError('x')", "    finally:", "        _ok = v <= snapshot(3)",
                                 "site(4)", "try:", "    site(8)", "except ValueError:", "    pass"],
    "with-exit-both-paths": ["class CM:", "    def __enter__(self):", "        return self", "    def __exit__(self, *a):", "        self.ok = 5 == snapshot(4)", "        return True",
                             "with CM():", "    pass", "with CM():", "    raise ValueError('x')"],
    "never-compared-star-list": ["v = [1, 2]", "s = snapshot([*v, 3+0])"],
    "never-compared-star-dict": ["v = {'a': 1}", "s = snapshot({**v, 'b': 2+0})"],
    "never-compared-star-call-args": ["v = [1, 2]", "s = snapshot(DC(*v))"],
    "never-compared-star-call-kwargs": ["v = {'x': 1}", "s = snapshot(DC(**v))"],
    "never-compared-star-call-mixed": ["v = {'y': 2}", "s = snapshot([DC(x=1+0, **v), 0])"],
    "never-compared-star-nested": ["v = [1]", "s = snapshot({'k': [(*v, 2), DC(x=[*v])]})"],
    "compared-star-call-kwargs-loop": ["v = {'y': 2}", "for _ in (1, 2):", "    assert DC(x=1, y=2) == snapshot(DC(x=1, **v))"],
    "compared-star-call-kwargs-wrong": ["v = {'y': 2}", "for _ in (1, 2):", "    assert DC(x=5, y=2) == snapshot(DC(x=1, **v))"],
    "never-compared-nested-name": ["v = DC(x=1)", "s = snapshot([v, {'k': v}])"],
    # inner snapshots
    "inner-parent-replaced": ["assert 5 == snapshot([snapshot(1+1)])"],
    "inner-deleted": ["assert [1] == snapshot([1, snapshot(1+1)])"],
    "inner-tuple-shrinks": ["assert (2, 3) == snapshot((snapshot(7),))"],
    "inner-fix": ["assert [3] == snapshot([snapshot(2)])"],
    "inner-create": ["assert [3] == snapshot([snapshot()])"],
    "inner-update": ["assert [2] == snapshot([snapshot(1+1)])"],
    "inner-dict-fix": ["assert {'a': 3} == snapshot({'a': snapshot(1+1)})"],
    "inner-dict-key-removed": ["assert {'b': 3} == snapshot({'a': snapshot(1+1)})"],
    "inner-align-longer": ["assert [1, 2] == snapshot([snapshot(2)])"],
    "inner-align-reversed": ["assert [2, 1] == snapshot([snapshot(2)])"],
    "inner-align-empty": ["assert [] == snapshot([snapshot(2)])"],
    "inner-align-nested": ["assert [[1, 2]] == snapshot([[snapshot(1)]])"],
    "inner-align-mismatch-before": ["assert [0, 2, 3] == snapshot([1, snapshot(2)])"],
    "inner-type-change": ["assert (1,) == snapshot([snapshot(1)])"],
    "inner-in-dataclass": ["assert DC(x=3) == snapshot(DC(x=snapshot(2)))"],
    "inner-twice": ["for v in (1, 2):", "    assert [v] == snapshot([snapshot(1)])"],
    # comparisons that raise
    "cmp-typeerror-le": ["assert 'a' <= snapshot(5)"],
    "cmp-typeerror-ge": ["assert 5 >= snapshot('a')"],
    "cmp-typeerror-le-empty-loop": ["for x in (1, 'a'):", "    assert x <= snapshot()"],
    "cmp-typeerror-le-loop": ["for x in (1, 'a', 2):", "    assert x <= snapshot(0)"],
    "cmp-eq-raises": ["assert Boom() == snapshot(1)"],
    "cmp-eq-raises-empty": ["assert Boom() == snapshot()"],
    "cmp-eq-raises-in-align": ["assert [Boom(), 2] == snapshot([1, 2, 3])"],
    "cmp-eq-raises-in-dict": ["assert {'a': Boom()} == snapshot({'a': 1})"],
    "cmp-in-raises": ["assert Boom() in snapshot([1])"],
    "cmp-sub-raises": ["s = snapshot({'a': 1})", "assert s['a'] == Boom()"],
    "nocopy-eq": ["assert Ident() == snapshot()"],
    "nocopy-le": ["assert Ident() <= snapshot()"],
    "nocopy-in": ["assert Ident() in snapshot()"],
    "nocopy-in-existing": ["assert Ident() in snapshot([1])"],
    "nocopy-sub": ["s = snapshot({'a': 1})", "assert s['b'] == Ident()"],
    "nocopy-sub-empty": ["s = snapshot()", "assert s['b'] == Ident()", "assert s['c'] == 1"],
    # sub-snapshot keys accessed but never compared
    "sub-touch": ["s = snapshot({'a': 1})", "s['a']", "s['b']"],
    "sub-touch-empty": ["s = snapshot()", "s['a']"],
    "sub-touch-nested": ["s = snapshot({'a': {'b': 1+0}})", "s['a']['c']", "assert s['a']['b'] == 1"],
    "sub-child-mixed-ops": ["s = snapshot({'a': 1})", "assert s['a'] == 1", "assert 1 <= s['a']"],
    # mixed operations on one snapshot
    "mixed-ops": ["s = snapshot(5)", "assert 5 == s", "assert 5 <= s"],
    "mixed-ops-empty": ["s = snapshot()", "assert 5 <= s", "assert 5 in s"],
    # layout at the end of a container
    "dict-space-before-brace": ["s = snapshot({'a': 1 })", "assert s['b'] == 2"],
    "dict-space-trim-create": ["s = snapshot({ 'a': 1 , 'c': 3 })", "assert s['b'] == 2", "assert s['c'] == 3"],
    "list-trailing-comma-in": ["assert 5 in snapshot([1, 2, ])"],
    "list-comment-end": ["assert [1, 3] == snapshot([", "    1,", "    2,  # two", "])"],
    "call-space": ["assert DC(x=1, y=2) == snapshot(DC( x=1 , y=3 ))"],
    "dict-trim-all-create": ["s = snapshot({'a': 1})", "assert s['b'] == 2"],
    "in-trim-all-fix": ["assert 5 in snapshot([1, 2])"],
    "in-noncanon-trim-update": ["assert 3 in snapshot([0x10, 0x3])"],
    "sub-noncanon-trim-update": ["s = snapshot({'a': 0x10, 'b': 0x3})", "assert s['b'] == 3"],
    "eq-delete-and-insert": ["assert [0, 2, 9] == snapshot([1, 2, 3, 4])"],
    "inner-two-deleted": ["assert [1] == snapshot([1, snapshot(1 + 1), snapshot(2 + 2)])"],
    "inner-never-compared-two-leaves-deleted": ["assert [1] == snapshot([1, snapshot([1 + 1, 2 + 2])])"],
    "inner-three-in-replaced-parent": ["assert 5 == snapshot([snapshot(1 + 1), [snapshot(2 + 2)], {'k': snapshot(3 + 3)}])"],
    "dict-value-parens-insert": ["s = snapshot({'a': ('x' 'y'), 'b': 2})", "assert s['c'] == 3", "assert s['a'] == 'xy'"],
    "dict-key-parens-delete": ["assert {'b': 2} == snapshot({('a'): 1, 'b': 2})"],
    "dict-value-parens-only-entry": ["assert {'a': 'xy', 'c': 1} == snapshot({'a': ('x' 'y')})"],
    "list-parens-mixed": ["assert [1, 3] == snapshot([(1), 2, (3)])"],
    # non-ASCII text on the line of the edited elements (character columns vs. byte offsets), with sibling inserts / deletes
    "unicode-replace-and-delete": ['assert ["äöü", 1, 5] == snapshot(["äöü", 2, 5, 6])'],
    "unicode-replace-and-insert": ['assert ["🐍", 1, 5, 6] == snapshot(["🐍", 2, 5])'],
    "unicode-dict-replace-delete": ['assert {"ä": 1, "b": 3} == snapshot({"ä": 2, "b": 3, "c": 4})'],
    "unicode-call-replace-insert": ['assert DC(x="é", y=2, z=[1]) == snapshot(DC(x="é", y=3))'],
    "unicode-before-call": ['x = "äöü🐍"; assert [1, 4] == snapshot([2, 3, 4])'],
    "unicode-inner-snapshot": ['assert ["ß", 2] == snapshot(["ß", snapshot(1 + 1), 3])'],
    # snapshot() evaluated where no source node can be found (code from a string): nothing can be rewritten, the session must still finish
    "nosrc-eq-ok": ["s = eval('snapshot(5)')", "assert 5 == s"],
    "nosrc-eq-fix": ["s = eval('snapshot(5)')", "assert 6 == s"],
    "nosrc-eq-list": ["s = eval('snapshot([1, 2])')", "assert [1, 3, 4] == s"],
    "nosrc-empty": ["s = eval('snapshot()')", "assert 5 == s"],
    "nosrc-le": ["s = eval('snapshot(5)')", "assert 3 <= s", "assert 7 <= s"],
    "nosrc-in": ["s = eval('snapshot([1])')", "assert 2 in s"],
    "nosrc-sub": ["s = eval(\"snapshot({'a': 1, 'z': 0})\")", "assert s['b'] == 2", "assert s['a'] == 3"],
    "nosrc-never": ["s = eval('snapshot([1 + 1])')"],
    "nosrc-exec-function": ["ns = {'snapshot': snapshot}", "exec('def f(x):\\n    return x == snapshot(1)', ns)", "assert ns['f'](1)", "assert ns['f'](2)"],
    # externals (storage is touched in the finish phase)
    "outsource-create": ["assert outsource('data-x') == snapshot()"],
    "outsource-create-and-trim": ["assert outsource('data-y') == snapshot()", "assert 5 in snapshot([5, 6])"],
    "outsource-fix": ["assert outsource('data-z') == snapshot(external('0123456789ab*.txt'))"],
    "outsource-in-list": ["assert [outsource('a1'), outsource(b'b2')] == snapshot([1])"],
    "outsource-same-data-twice": ["assert outsource('data-x') == snapshot()", "assert outsource('data-x') == snapshot()"],
    "outsource-same-data-in-list": ["assert [outsource('dd'), outsource('dd'), outsource(b'dd')] == snapshot()"],
    "outsource-same-data-fix-and-create": ["assert outsource('data-x') == snapshot(external('0123456789ab*.txt'))", "assert {'k': outsource('data-x')} == snapshot()"],
    "outsource-then-raise": ["assert outsource('data-w') == snapshot()", "raise ValueError('x')"],
    "outsource-sub": ["s = snapshot({'old': 1})", "assert s['new'] == outsource('data-v')"],
}


def bounds(tier):
    return {"shapes": len(SHAPES), "approved_sets": 16, "pairs": "slice" if tier == "quick" else "all ordered pairs"}


def source(names):
    from ..gen.values import PIECES

    out = [PRE, PIECES["DC"], "\n\n"]
    for i, n in enumerate(names):
        out.append("def test_%d():\n" % i + "".join("    " + l + "\n" for l in SHAPES[n]) + "\n\n")
    return "".join(out)


def build(tier, seed):
    names = list(SHAPES)
    tasks = []
    # sessions started in a directory that does not contain the test files (absolute path on the command line / a sibling directory)
    for where in ("sibling", "parent-of-nothing", "subdir-of-project"):
        tasks.append({"progs": [[n] for n in ("fail-then-empty", "fail-then-trim", "never-compared-list", "inner-deleted", "outsource-create")],
                      "fs": [list(CATS), ["create", "fix"], ["fix"], []], "drv": "plugin", "cwd": where})
    for i in range(0, len(names), 2):
        tasks.append({"progs": [[n] for n in names[i : i + 2]], "fs": FS, "drv": "inline"})
    pairs = list(itertools.permutations(names, 2))
    if tier == "quick":
        pairs = pairs[::37]
    for i in range(0, len(pairs), 8):
        tasks.append({"progs": [list(p) for p in pairs[i : i + 8]], "fs": FS if tier == "thorough" else [list(CATS), ["create", "fix"], ["trim", "update"], []], "drv": "inline"})
    # the same shape twice in one file, and shapes spread over two files (the same data outsourced at several places among them)
    ext = [n for n in names if n.startswith("outsource")]
    twice = [[n, n] for n in (names if tier == "thorough" else ext + names[::9])]
    for i in range(0, len(twice), 6):
        for drv in ("inline", "plugin"):
            tasks.append({"progs": twice[i : i + 6], "fs": [list(CATS), ["create", "fix"], ["fix"]], "drv": drv})
    split = [[a, b] for a in ext for b in ext] + [[n, n] for n in names[::7]]
    for i in range(0, len(split), 6):
        for drv in ("inline", "plugin"):
            tasks.append({"progs": split[i : i + 6], "fs": [list(CATS), ["create", "fix"], ["create"]], "drv": drv, "split": True})
    pf = [list(CATS), ["create", "fix"], ["fix"], ["trim", "update"], ["create"], []] if tier == "quick" else FS
    for i in range(0, len(names), 3):
        tasks.append({"progs": [[n] for n in names[i : i + 3]], "fs": pf, "drv": "plugin"})
    return tasks


def run_case(case):
    names, F, drv = case["names"], case["F"], case["drv"]
    if case.get("cwd"):
        return _run_elsewhere(case)
    src = source(names)
    files = {"test_something.py": src}
    if case.get("split"):
        files = {"test_f%d.py" % i: source([n]) for i, n in enumerate(names)}
        src = "\n# ---- next file ----\n".join(v[len(PRE):] for v in files.values())
    viol = []

    def V(what, detail):
        viol.append({"case": case, "what": what, "detail": detail + "\n--- program ---\n" + src[len(PRE):][-900:]})

    if drv == "inline":
        from ..drivers.inline import run_inline

        r = run_inline(files, F)
        if r["error"]:
            V("finish-phase-exception", "%s: %s\n%s" % (r["error"]["type"], r["error"]["msg"][:300], r["error"]["tb"][-700:]))
            return viol
        after = {k: r["files"].get(k, "") for k in files}
    else:
        from ..drivers import plugin

        d = plugin.mk_project(dict(files, **{"pyproject.toml": ""}))
        try:
            r = plugin.session(d, ["--inline-snapshot=" + ",".join(F)])
            lst = plugin.listing(d, text=True)
            after = {k: lst.get(k, "") for k in files}
        finally:
            plugin.cleanup()
        if plugin.internal_error(r["out"]) or r["rc"] not in (0, 1):
            V("finish-phase-exception", "rc=%s\n%s" % (r["rc"], r["out"][-1200:]))
            return viol
    for k, text in after.items():
        try:
            ast.parse(text)
        except SyntaxError as e:
            V("result-not-valid-python", "%s: %s\n%s" % (k, e, text[len(PRE):][-600:]))
    return viol


def _run_elsewhere(case):
    import os
    from ..drivers import plugin

    src = source(case["names"])
    root = plugin.mk_project({})
    proj = os.path.join(root, "proj")
    plugin.write_files(proj, {"tests/test_something.py": src, "pyproject.toml": "", "docs/readme.txt": "x"})
    cwd = {"sibling": os.path.join(root, "elsewhere"), "parent-of-nothing": root, "subdir-of-project": os.path.join(proj, "docs")}[case["cwd"]]
    os.makedirs(cwd, exist_ok=True)
    viol = []
    try:
        r = plugin.session(cwd, ["--inline-snapshot=" + ",".join(case["F"]), os.path.join(proj, "tests")])
        after = plugin.listing(proj, text=True).get("tests/test_something.py", "")
    finally:
        plugin.cleanup()
    if plugin.internal_error(r["out"]) or r["rc"] not in (0, 1):
        viol.append({"case": case, "what": "finish-phase-exception", "detail": "session started in %s, rc=%s\n%s\n--- program ---\n%s" % (case["cwd"], r["rc"], r["out"][-1200:], src[len(PRE):][-600:])})
        return viol
    try:
        ast.parse(after)
    except SyntaxError as e:
        viol.append({"case": case, "what": "result-not-valid-python", "detail": "%s\n%s" % (e, after[len(PRE):][-600:])})
    return viol


def run_task(task):
    out = {"n": 0, "nontrivial": [], "outcomes": {}, "violations": [], "samples": []}
    for names in task["progs"]:
        for F in task["fs"]:
            case = {"names": names, "F": F, "drv": task["drv"]}
            if task.get("cwd"):
                case["cwd"] = task["cwd"]
            if task.get("split"):
                case["split"] = True
            vs = run_case(case)
            out["n"] += 1
            if vs:
                out["violations"] += [dict(v, sig=_sig(case, v)) for v in vs]
                lab = "viol:" + vs[0]["what"]
            else:
                out["nontrivial"].append(repr((names, F, task["drv"], task.get("split"), task.get("cwd"))))
                lab = "ok:" + task["drv"]
            out["outcomes"][lab] = out["outcomes"].get(lab, 0) + 1
    out["samples"].append({"shapes": task["progs"][0], "driver": task["drv"], "body": SHAPES[task["progs"][0][0]]})
    return out


def _sig(case, v):
    return None
