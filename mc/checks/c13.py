"""C13 - external storage stays consistent across any history of runs.
Explicit-state BFS over histories: events = {set the payload of test_a to A|B, add / remove a second test file, run a
session with flags F, review with every answer vector}; every session transition is a real pytest session; states are
directory trees (test files + storage), deduplicated; run under several hash-length / storage-dir configurations.
Oracle: an independent storage model predicts the storage listing and the references after every session, and invariants
are checked in every state.  Lookup clause: for every small store x every hash prefix, reading external(prefix) returns
the bytes of the unique match or raises."""
from __future__ import annotations

import hashlib
import itertools
import json
import re

from ..models import storage as SM

ID = "C13"
LEVEL = "model_checking"
RULE = ("BFS from two initial states (empty project; one persisted, referenced external) over events {payload A|B, add/remove "
        "second test file, session with F in {-, create, fix, trim, create+fix, create+fix+trim, fix+trim, short-report+trim, "
        "report}, review x all answer vectors} up to a depth bound per configuration (hash-length {12, 64, 3} x storage-dir "
        "{default, custom}); states = distinct (test files, storage) trees, transitions = real sessions; every transition is "
        "compared with the storage model (validated = transitions that agree) and five invariants are checked in every state; "
        "plus exhaustive lookup probes (stores of <= 3 files incl. a colliding pair x all prefixes of length 0..5 and full names)")
ASSUMPTIONS = ["payloads used in histories never collide on the configured prefix length (documented price of a short hash-length)",
               "the lookup probe calls DiscStorage.read directly (anchored internal API); skipped with a note if it no longer exists"]
TASK_TIMEOUT = 1200

PAY = {"A": "payload-A", "B": "payload-B", "C": "payload-C"}
CFGS = [{"hl": 12, "dir": None}, {"hl": 64, "dir": None}, {"hl": 3, "dir": None}, {"hl": 12, "dir": "my_store"}, {"hl": 3, "dir": "my_store"}, {"hl": 64, "dir": "my_store"}]
RUNS = [([], None), (["create"], None), (["fix"], None), (["trim"], None), (["create", "fix"], None), (["create", "fix", "trim"], None),
        (["fix", "trim"], None), (["short-report", "trim"], None), (["report"], None), (["review"], "y"), (["review"], "n"), (["review", "trim"], "n"),
        (["disable"], None), (["create", "fix"], None, "CI")]


def bounds(tier):
    return {"configs": CFGS, "depth_per_config": [_depth(tier, i) for i in range(len(CFGS))], "session_events": len(RUNS), "edit_events": 4}


def _depth(tier, ci):
    if tier == "quick":
        return {0: 2, 1: 1, 4: 1}.get(ci, 0)
    return 4 if ci == 0 else 3


def test_file(payload, ref):
    arg = "" if ref is None else 'external("%s")' % ref
    imp = "from inline_snapshot import external\n" if ref is not None else ""
    return ("from inline_snapshot import snapshot, outsource\n%s\nPAYLOAD = '%s'\n\n\ndef test_x():\n    assert outsource(PAYLOAD) == snapshot(%s)\n" % (imp, payload, arg))


def initial_states(cfg):
    h = SM.sha(PAY["A"])
    return [
        {"files": {"test_a.py": test_file(PAY["A"], None)}, "store": {}},
        {"files": {"test_a.py": test_file(PAY["A"], SM.ref_text(h, cfg["hl"]))}, "store": {h + ".txt": PAY["A"]}},
    ]


def key(state):
    return json.dumps([sorted(state["files"].items()), sorted(state["store"].items())])


def events(state):
    ev = []
    if "test_a.py" in state["files"]:
        cur = SM.parse(state["files"]["test_a.py"])[0]
        for k in ("A", "B"):
            if PAY[k] != cur:
                ev.append(["payload", k])
    ev.append(["rmb"] if "test_b.py" in state["files"] else ["addb"])
    for r in RUNS:
        ev.append(["run", r[0], r[1]] + ([r[2]] if len(r) > 2 else []))
    return ev


QUICK_SKIP = (["report"], ["review", "trim"], ["fix", "trim"])


def apply_edit(state, ev):
    files = dict(state["files"])
    if ev[0] == "payload":
        files["test_a.py"] = re.sub(r"^PAYLOAD = '[^']*'$", "PAYLOAD = '%s'" % PAY[ev[1]], files["test_a.py"], flags=re.M)
    elif ev[0] == "addb":
        files["test_b.py"] = test_file(PAY["C"], None)
    elif ev[0] == "rmb":
        del files["test_b.py"]
    return {"files": files, "store": dict(state["store"])}


def storage_prefix(cfg):
    return (cfg["dir"] or ".inline-snapshot") + "/external/"


def run_session(state, cfg, ev):
    from ..drivers import plugin

    pp = "[tool.inline-snapshot]\nhash-length = %d\n" % cfg["hl"] + ('storage-dir = "%s"\n' % cfg["dir"] if cfg["dir"] else "")
    files = dict(state["files"])
    files["pyproject.toml"] = pp
    sp = storage_prefix(cfg)
    for n, c in state["store"].items():
        files[sp + n] = c
    d = plugin.mk_project(files)
    try:
        stdin = None if ev[2] is None else (ev[2] + "\n").encode() * 8
        r = plugin.session(d, ["--inline-snapshot=" + ",".join(ev[1])], stdin=stdin, env={"CI": "true"} if len(ev) > 3 else None)
        after = plugin.listing(d, text=True)
    finally:
        plugin.cleanup()
    new = {"files": {k: v for k, v in after.items() if k.startswith("test_") and k.endswith(".py")},
           "store": {k[len(sp):]: v for k, v in after.items() if k.startswith(sp) and not k.endswith(".gitignore")}}
    stray = [k for k in after if not (k in new["files"] or k.startswith(sp) or k == "pyproject.toml")]
    return new, r, stray


def check_transition(prev, cfg, ev, new, r, stray):
    from ..drivers import plugin

    case = {"state": prev, "cfg": cfg, "event": ev}
    viol = []

    def V(what, detail):
        viol.append({"case": case, "what": what, "detail": detail + " | event %s cfg %s | store before %s after %s | output: %s" % (
            ev, cfg, sorted(n_[:10] + n_[64:] for n_ in prev["store"]), sorted(n_[:10] + n_[64:] for n_ in new["store"]), r["out"][-300:])})

    if plugin.internal_error(r["out"]) or r["rc"] not in (0, 1):
        V("internal-error", "rc=%s" % r["rc"])
        return viol
    if stray:
        V("file-outside-storage-dir", str(stray))
    m = SM.step(prev, ev[1], (ev[2] * 8 if ev[2] else None), cfg["hl"], ci=len(ev) > 3)
    # invariants in the reached state
    for name, content in new["store"].items():
        stem = name.replace("-new.txt", ".txt")
        if SM.sha(content) + ".txt" != stem:
            V("name-is-not-sha256-of-content", name)
    refs = {}
    for f, text in new["files"].items():
        try:
            refs[f] = SM.parse(text)[1]
        except Exception as e:  # noqa
            V("test-file-unreadable", "%s: %s" % (f, e))
            return viol
    for name in new["store"]:
        if "-new." not in name and name not in prev["store"]:
            if not any(r_ is not None and name.startswith(r_) for r_ in refs.values()):
                V("persisted-without-reference", name)
    pays = {SM.sha(SM.parse(t)[0]) for t in new["files"].values()}
    for name in new["store"]:
        if "-new." in name and name.replace("-new.txt", "") not in pays:
            V("stale-new-file-survived-session-start", name)
    for name in prev["store"]:
        if "-new." not in name and name not in new["store"]:
            if "trim" not in m["approved"] and "trim" not in ev[1]:
                V("persisted-file-removed-without-approved-trim", name)
            elif any(r_ is not None and name.startswith(r_) for r_ in refs.values()):
                V("referenced-file-trimmed", name)
    for f, r_ in refs.items():
        old = SM.parse(prev["files"][f])[1] if f in prev["files"] else None
        if r_ is not None and r_ != old:
            match = [n for n in new["store"] if n.startswith(r_) and "-new." not in n]
            if len(match) != 1:
                V("written-reference-has-no-unique-persisted-file", "%s -> %s matches %s" % (f, r_, match))
    # conformance with the model
    if not viol:
        got_store = {n: ("-new." not in n) for n in new["store"]}
        if refs != m["refs"]:
            V("references-differ-from-model", "got %s model %s" % (refs, m["refs"]))
        if got_store != m["store"]:
            V("storage-differs-from-model", "got %s model %s" % (sorted(got_store.items()), sorted(m["store"].items())))
    return viol


def run_case(case):
    if "probe" in case:
        return _probe(case["probe"])
    new, r, stray = run_session(case["state"], case["cfg"], case["event"])
    return check_transition(case["state"], case["cfg"], case["event"], new, r, stray)


def run_task(task):
    out = {"n": 0, "nontrivial": [], "outcomes": {}, "violations": [], "samples": [], "states": [], "transitions": 0, "validated": 0, "next": []}
    if "probes" in task:
        for p in task["probes"]:
            v = _probe(p)
            out["n"] += 1
            out["violations"] += v
            lab = "viol:" + v[0]["what"] if v else "ok:lookup-probe"
            out["outcomes"][lab] = out["outcomes"].get(lab, 0) + 1
            if not v and len(p["store"]) >= 2:
                out["nontrivial"].append("probe" + json.dumps(p))
        return out
    for state, ev in task["steps"]:
        new, r, stray = run_session(state, task["cfg"], ev)
        v = check_transition(state, task["cfg"], ev, new, r, stray)
        out["n"] += 1
        out["transitions"] += 1
        lab = "run:" + "+".join(ev[1]) + (":" + ev[2] if ev[2] else "")
        if v:
            out["violations"] += v
            lab = "viol:" + v[0]["what"]
        else:
            out["validated"] += 1
            out["next"].append(new)
            if new != state:
                out["nontrivial"].append(key(state) + json.dumps(ev) + json.dumps(task["cfg"]))
        out["outcomes"][lab] = out["outcomes"].get(lab, 0) + 1
    if task["steps"]:
        s, ev = task["steps"][0]
        out["samples"].append({"config": task["cfg"], "storage_before": sorted(s["store"]), "event": ev, "test_a": s["files"].get("test_a.py", "")[-160:]})
    return out


def explore(tier, seed, runner):
    done = []
    allstates = 0
    for ci, cfg in enumerate(CFGS):
        seen = {}
        frontier = []
        for s in initial_states(cfg):
            seen[key(s)] = s
            frontier.append(s)
        for depth in range(_depth(tier, ci)):
            steps = []
            nxt = []
            # edit events are free: close the frontier under edits first
            work = list(frontier)
            while work:
                s = work.pop()
                for ev in events(s):
                    if ev[0] == "run":
                        if not (tier == "quick" and ev[1] in QUICK_SKIP):
                            steps.append((s, ev))
                    else:
                        s2 = apply_edit(s, ev)
                        if key(s2) not in seen:
                            seen[key(s2)] = s2
                            work.append(s2)
            tasks = [{"cfg": cfg, "steps": steps[i : i + 8]} for i in range(0, len(steps), 8)]
            results = runner(tasks)
            for t, r in zip(tasks, results):
                if r and r[0] == "ok":
                    for s2 in r[1].pop("next"):
                        if key(s2) not in seen:
                            seen[key(s2)] = s2
                            nxt.append(s2)
                    r[1]["states"] = [json.dumps(cfg) + key(s) for s, _ in t["steps"]]
                done.append(({"cfg": cfg, "depth": depth, "n": len(t["steps"])}, r))
            frontier = nxt
            if not frontier:
                break
        allstates += len(seen)
    probes = _probes()
    ptasks = [{"probes": probes[i : i + 40]} for i in range(0, len(probes), 40)]
    for t, r in zip(ptasks, runner(ptasks)):
        done.append(({"probes": len(t["probes"])}, r))
    explore.total_states = allstates
    return done


def finish(agg, cov, tier):
    cov["states_including_edit_closure"] = getattr(explore, "total_states", None)


# ------------------------------------------------------------------ lookup clause

def _collide(n=3):
    seen = {}
    i = 0
    while True:
        p = "P%d" % i
        h = SM.sha(p)[:n]
        if h in seen:
            return seen[h], p
        seen[h] = p
        i += 1


def _probes():
    a, b = _collide(3)
    pool = [(a, False), (b, False), (a, True), (b, True), ("Q", False), ("Q", True)]  # (payload, is -new file)
    probes = []
    for k in range(0, 4):
        for combo in itertools.combinations(pool, k):
            names = [(SM.sha(p) + ("-new" if new else "") + ".txt") for p, new in combo]
            if len(set(names)) != len(names):
                continue
            store = {n: p for n, (p, _) in zip(names, combo)}
            queries = set()
            for p in (a, b, "Q", "absent"):
                h = SM.sha(p)
                for L in (0, 1, 2, 3, 4, 5, 64):
                    queries.add(h[:L] + ("*" if L < 64 else "") + ".txt")
            probes.append({"store": store, "queries": sorted(queries)})
    return probes


def _probe(p):
    import os
    import tempfile
    import shutil
    import fnmatch

    try:
        from inline_snapshot._external import DiscStorage
    except Exception as e:  # noqa
        return []
    d = tempfile.mkdtemp(prefix="mc-store-")
    viol = []
    try:
        for n, c in p["store"].items():
            with open(os.path.join(d, n), "w") as f:
                f.write(c)
        st = DiscStorage(d)
        for q in p["queries"]:
            match = [n for n in p["store"] if fnmatch.fnmatchcase(n, q)]
            try:
                data = st.read(q)
                got = ("data", data)
            except Exception as e:  # noqa
                got = ("raise", type(e).__name__)
            if len(match) == 1:
                if got != ("data", p["store"][match[0]].encode()):
                    viol.append({"case": {"probe": p}, "what": "lookup-wrong-data", "detail": "query %s unique match %s got %s" % (q, match, got)})
            elif got[0] != "raise":
                viol.append({"case": {"probe": p}, "what": "ambiguous-or-missing-prefix-resolved", "detail": "query %s matches %s but returned %r" % (q, match, got)})
    finally:
        shutil.rmtree(d, ignore_errors=True)
    return viol[:3]
