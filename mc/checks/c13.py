"""C13 - external storage stays consistent across any history of runs.
Explicit-state BFS over histories: events = {set the payload of test_a to A|B, add / remove a second test file, run a
session with flags F, review with every answer vector}; every session transition is a real pytest session; states are
directory trees (test files + storage), deduplicated; run under several hash-length / storage-dir configurations.
Oracle: an independent storage model predicts the storage listing and the references after every session, and invariants
are checked in every state.  Lookup clause: for every small store x every hash prefix, reading external(prefix) returns
the bytes of the unique match or raises."""
from __future__ import annotations

import ast
import hashlib
import itertools
import json
import re

from ..models import storage as SM

ID = "C13"
LEVEL = "model_checking"
RULE = ("BFS from two initial states (empty project; one persisted, referenced external) over events {payload A|B, add/remove "
        "second test file, session with F in {-, create, fix, trim, create+fix, create+fix+trim, fix+trim, short-report+trim, "
        "report}, review x all answer vectors} up to a depth bound per configuration (hash-length {12, 64, 3} x storage-dir "
        "{default, custom}); states = distinct (test files, storage) trees, transitions = real sessions; every transition is "
        "compared with the storage model (validated = transitions that agree) and five invariants are checked in every state; "
        "plus exhaustive lookup probes (stores of <= 3 files incl. a colliding pair x all prefixes of length 0..5 and full names)"
        "; plus fixed histories: suffix pairs incl. edge suffixes, import shapes x flows, hash-length changes, colliding prefixes, relative storage-dir")
ASSUMPTIONS = ["payloads used in histories never collide on the configured prefix length (documented price of a short hash-length)",
               "the lookup probe calls DiscStorage.read directly (anchored internal API); skipped with a note if it no longer exists"]
TASK_TIMEOUT = 1200

PAY = {"A": "payload-A", "B": "payload-B", "C": "payload-C"}
CFGS = [{"hl": 12, "dir": None}, {"hl": 64, "dir": None}, {"hl": 3, "dir": None}, {"hl": 12, "dir": "my_store"}, {"hl": 3, "dir": "my_store"}, {"hl": 64, "dir": "my_store"}]
RUNS = [([], None), (["create"], None), (["fix"], None), (["trim"], None), (["create", "fix"], None), (["create", "fix", "trim"], None),
        (["fix", "trim"], None), (["short-report", "trim"], None), (["report"], None), (["review"], "y"), (["review"], "n"), (["review", "trim"], "n"),
        (["disable"], None), (["create", "fix"], None, "CI")]


def bounds(tier):
    return {"fixed_histories": {"suffix_pairs": len(SITES) * (len(SITES) - 1), "flows": list(H_FLOWS), "cwd_histories": 18, "hash_length_change_histories": len(HL_SITES) * len(HL_CHANGES) * len(HL_SECOND), "import_shape_histories": len(IMP_HEADERS) * len(IMP_FLOWS), "prefix_collision_histories": 12}, "configs": CFGS, "depth_per_config": [_depth(tier, i) for i in range(len(CFGS))], "session_events": len(RUNS), "edit_events": 4}


def _depth(tier, ci):
    if tier == "quick":
        return 2 if ci == 0 else 1
    return 4 if ci == 0 else 3


def test_file(payload, ref):
    arg = "" if ref is None else 'external("%s")' % ref
    imp = "from inline_snapshot import external\n" if ref is not None else ""
    return ("from inline_snapshot import snapshot, outsource\n%s\nPAYLOAD = '%s'\n\n\ndef test_x():\n    assert outsource(PAYLOAD) == snapshot(%s)\n" % (imp, payload, arg))


def initial_states(cfg):
    h = SM.sha(PAY["A"])
    return [
        {"files": {"test_a.py": test_file(PAY["A"], None)}, "store": {}},
        {"files": {"test_a.py": test_file(PAY["A"], SM.ref_text(h, cfg["hl"]))}, "store": {h + ".txt": PAY["A"]}},
    ]


def key(state):
    return json.dumps([sorted(state["files"].items()), sorted(state["store"].items())])


def events(state):
    ev = []
    if "test_a.py" in state["files"]:
        cur = SM.parse(state["files"]["test_a.py"])[0]
        for k in ("A", "B"):
            if PAY[k] != cur:
                ev.append(["payload", k])
    ev.append(["rmb"] if "test_b.py" in state["files"] else ["addb"])
    for r in RUNS:
        ev.append(["run", r[0], r[1]] + ([r[2]] if len(r) > 2 else []))
    return ev


QUICK_SKIP = (["report"], ["review", "trim"], ["fix", "trim"])


def apply_edit(state, ev):
    files = dict(state["files"])
    if ev[0] == "payload":
        files["test_a.py"] = re.sub(r"^PAYLOAD = '[^']*'$", "PAYLOAD = '%s'" % PAY[ev[1]], files["test_a.py"], flags=re.M)
    elif ev[0] == "addb":
        files["test_b.py"] = test_file(PAY["C"], None)
    elif ev[0] == "rmb":
        del files["test_b.py"]
    return {"files": files, "store": dict(state["store"])}


def storage_prefix(cfg):
    return (cfg["dir"] or ".inline-snapshot") + "/external/"


def run_session(state, cfg, ev):
    from ..drivers import plugin

    pp = "[tool.inline-snapshot]\nhash-length = %d\n" % cfg["hl"] + ('storage-dir = "%s"\n' % cfg["dir"] if cfg["dir"] else "")
    files = dict(state["files"])
    files["pyproject.toml"] = pp
    sp = storage_prefix(cfg)
    for n, c in state["store"].items():
        files[sp + n] = c
    d = plugin.mk_project(files)
    try:
        stdin = None if ev[2] is None else (ev[2] + "\n").encode() * 8
        r = plugin.session(d, ["--inline-snapshot=" + ",".join(ev[1])], stdin=stdin, env={"CI": "true"} if len(ev) > 3 else None)
        after = plugin.listing(d, text=True)
    finally:
        plugin.cleanup()
    new = {"files": {k: v for k, v in after.items() if k.startswith("test_") and k.endswith(".py")},
           "store": {k[len(sp):]: v for k, v in after.items() if k.startswith(sp) and not k.endswith(".gitignore")}}
    stray = [k for k in after if not (k in new["files"] or k.startswith(sp) or k == "pyproject.toml")]
    return new, r, stray


def check_transition(prev, cfg, ev, new, r, stray):
    from ..drivers import plugin

    case = {"state": prev, "cfg": cfg, "event": ev}
    viol = []

    def V(what, detail):
        viol.append({"case": case, "what": what, "detail": detail + " | event %s cfg %s | store before %s after %s | output: %s" % (
            ev, cfg, sorted(n_[:10] + n_[64:] for n_ in prev["store"]), sorted(n_[:10] + n_[64:] for n_ in new["store"]), r["out"][-300:])})

    if plugin.internal_error(r["out"]) or r["rc"] not in (0, 1):
        V("internal-error", "rc=%s" % r["rc"])
        return viol
    if stray:
        V("file-outside-storage-dir", str(stray))
    m = SM.step(prev, ev[1], (ev[2] * 8 if ev[2] else None), cfg["hl"], ci=len(ev) > 3)
    # invariants in the reached state
    for name, content in new["store"].items():
        stem = name.replace("-new.txt", ".txt")
        if SM.sha(content) + ".txt" != stem:
            V("name-is-not-sha256-of-content", name)
    refs = {}
    for f, text in new["files"].items():
        try:
            refs[f] = SM.parse(text)[1]
        except Exception as e:  # noqa
            V("test-file-unreadable", "%s: %s" % (f, e))
            return viol
    for name in new["store"]:
        if "-new." not in name and name not in prev["store"]:
            if not any(r_ is not None and name.startswith(r_) for r_ in refs.values()):
                V("persisted-without-reference", name)
    pays = {SM.sha(SM.parse(t)[0]) for t in new["files"].values()}
    for name in new["store"]:
        if "-new." in name and name.replace("-new.txt", "") not in pays:
            V("stale-new-file-survived-session-start", name)
    for name in prev["store"]:
        if "-new." not in name and name not in new["store"]:
            if "trim" not in m["approved"] and "trim" not in ev[1]:
                V("persisted-file-removed-without-approved-trim", name)
            elif any(r_ is not None and name.startswith(r_) for r_ in refs.values()):
                V("referenced-file-trimmed", name)
    for f, r_ in refs.items():
        old = SM.parse(prev["files"][f])[1] if f in prev["files"] else None
        if r_ is not None and r_ != old:
            match = [n for n in new["store"] if n.startswith(r_) and "-new." not in n]
            if len(match) != 1:
                V("written-reference-has-no-unique-persisted-file", "%s -> %s matches %s" % (f, r_, match))
    # conformance with the model
    if not viol:
        got_store = {n: ("-new." not in n) for n in new["store"]}
        if refs != m["refs"]:
            V("references-differ-from-model", "got %s model %s" % (refs, m["refs"]))
        if got_store != m["store"]:
            V("storage-differs-from-model", "got %s model %s" % (sorted(got_store.items()), sorted(m["store"].items())))
    return viol


# ------------------------------------------------------------------ fixed histories with invariant oracles
# (suffix variants of one byte content, sessions started from different directories with a relative storage-dir)

SITES = {"txt": "outsource('payload')", "bin": "outsource(b'payload')", "json": "outsource('payload', suffix='.json')",
         "btxt": "outsource(b'payload', suffix='.txt')", "other": "outsource('other-data')", "png": "outsource(b'\\x89PNG\\x00', suffix='.png')",
         # suffixes at the edge of the documented name format <hash>.<suffix> (several parts, upper case, digits, bare dot, no dot, dash)
         "targz": "outsource(b'payload', suffix='.tar.gz')", "upper": "outsource('payload', suffix='.TXT')", "num": "outsource(b'payload', suffix='.7z')",
         "dot": "outsource(b'payload', suffix='.')", "nodot": "outsource(b'payload', suffix='txt')", "dash": "outsource('payload', suffix='.my-ext')"}
EDGE_SITES = ("targz", "upper", "num", "dot", "nodot", "dash")
SITE_DATA = {"txt": (b"payload", ".txt"), "bin": (b"payload", ".bin"), "json": (b"payload", ".json"), "btxt": (b"payload", ".txt"),
             "other": (b"other-data", ".txt"), "png": (b"\x89PNG\x00", ".png"),
             "targz": (b"payload", ".tar.gz"), "upper": (b"payload", ".TXT"), "num": (b"payload", ".7z"), "dot": (b"payload", "."), "nodot": (b"payload", "txt"),
             "dash": (b"payload", ".my-ext")}
H_FLOWS = {
    "together": [("both", ["create"]), ("both", []), ("both", ["trim"]), ("both", [])],
    "one-then-other": [("first", ["create"]), ("both", ["create"]), ("both", []), ("both", ["trim"]), ("both", [])],
    "fix-to-other": [("first", ["create"]), ("swap", ["fix"]), ("swap", []), ("swap", ["trim"]), ("swap", [])],
    "remove-one-then-trim": [("both", ["create"]), ("first", ["trim"]), ("first", []), ("both", [])],
}


def _hist_cases(tier):
    cases = []
    kinds = list(SITES)
    for a in kinds:
        for b in kinds:
            if a == b or (a in EDGE_SITES and b in EDGE_SITES) or (tier == "quick" and b in EDGE_SITES and a != "txt"):
                continue
            for flow in H_FLOWS:
                for hl in ((12,) if tier == "quick" else (12, 64, 3)):
                    cases.append({"hist": "suffix", "a": a, "b": b, "flow": flow, "hl": hl})
    for site in HL_SITES:
        for hl1, hl2 in (HL_CHANGES if tier != "quick" else HL_CHANGES[:4]):
            for second in HL_SECOND:
                cases.append({"hist": "hashlen", "site": site, "hl": [hl1, hl2], "second": second})
    for h in IMP_HEADERS:
        for flow in IMP_FLOWS:
            if flow == "create-tidy-trim" and h not in IMP_BINDS_EXTERNAL:
                continue
            cases.append({"hist": "imports", "header": h, "flow": flow})
    # two referenced payloads whose hashes agree on the configured prefix length: an approved trim must keep both
    for hl in (1, 2):
        for order in ("first-then-second", "both"):
            for flags in (["trim"], ["create", "trim"], ["fix", "trim"]):
                cases.append({"hist": "collision", "hl": hl, "order": order, "flags": flags})
    for layout in ("tests-subdir", "nested-subdir"):
        for sd in ("snapshots", "../store", ".inline-snapshot"):
            for order in (["root", "sub", "root", "sub"], ["sub", "root", "sub", "root"], ["sub", "sub", "root", "root"]):
                cases.append({"hist": "cwd", "layout": layout, "sd": sd, "order": order})
    return cases


# where the names come from: the library only recognises a reference below a top-level `from inline_snapshot import external`
IMP_LIB = "from inline_snapshot import external, outsource, snapshot\n"
IMP_HEADERS = {
    "canonical": "from inline_snapshot import snapshot, outsource\n",
    "reexport": "from testlib import external, outsource, snapshot\n",
    "reexport-without-external": "from testlib import outsource, snapshot\n",
    "module-and-names": "import inline_snapshot\nfrom inline_snapshot import snapshot, outsource\n",
    "star": "from inline_snapshot import *\n",
    "try": "try:\n    from inline_snapshot import external, outsource, snapshot\nexcept ImportError:\n    raise\n",
    "other-binding": "from inline_snapshot import snapshot, outsource\nfrom os.path import join as external\n",
    "two-lines": "from inline_snapshot import snapshot\nfrom inline_snapshot import outsource\n",
    "already": "from inline_snapshot import external\nfrom inline_snapshot import snapshot, outsource\n",
    "already-aliased": "from inline_snapshot import external as ext, snapshot, outsource\n",
    # the first snapshot() call of the file happens inside an xfail test (evaluated under a temporary, disabled state)
    "xfail-test-first": "import pytest\nfrom inline_snapshot import snapshot, outsource\n\n\n@pytest.mark.xfail\ndef test_0():\n    assert 1 == snapshot(2)\n",
    "xfail-module-helper-first": "import pytest\nfrom inline_snapshot import snapshot, outsource\n\n\n@pytest.mark.xfail(reason='known')\ndef test_0():\n    assert outsource('payload') == snapshot('x')\n",
}
IMP_FLOWS = {
    "create-trim": [["create"], ["trim"], []],
    "create+trim": [["create", "trim"], []],
    "create-fix-trim": [["create"], "newdata", ["fix"], ["trim"], []],
    "create-all": [["create"], ["create", "fix", "trim", "update"], []],
    # the user removes the import line the tool added where their own header already binds the name (a linter calls it a redefinition)
    "create-tidy-trim": [["create"], "tidy", ["trim"], []],
}
IMP_BINDS_EXTERNAL = ("reexport", "star", "try")
# references written under one hash-length and re-rendered (update) / trimmed under another
HL_SITES = {
    "eq": "assert outsource('payload') == snapshot()", "in": "for x in ('payload', 'second'):\n        assert outsource(x) in snapshot()",
    "list": "assert [outsource('payload'), outsource(b'second')] == snapshot()", "dict": "assert {'a': outsource('payload'), 'b': 1} == snapshot()",
    "getitem": "s = snapshot()\n    assert s['k'] == outsource('payload')\n    assert s['j'] == [outsource(b'second')]", "le": "assert (1, 'x') <= snapshot()\n    assert outsource('payload') == snapshot()",
    "call": "assert DC(outsource('payload'), [outsource(b'second')]) == snapshot()",
}
HL_CHANGES = [(12, 64), (64, 12), (12, 3), (3, 64), (64, 63), (12, 12)]
HL_SECOND = [["update"], ["fix", "update"], ["create", "fix", "trim", "update"], ["update", "trim"], ["trim"]]


def _hist_file(kinds, prev_text):
    """Test file with one test per site kind; references already written for a kind are kept."""
    old = {}
    if prev_text:
        for m in re.finditer(r"def test_(\w+)\(\):\n    assert .*? == snapshot\((.*)\)\n", prev_text):
            old[m.group(1)] = m.group(2)
    imp = "from inline_snapshot import snapshot, outsource" + (", external" if any("external(" in v for v in old.values()) else "") + "\n\n\n"
    return imp + "\n\n".join("def test_%s():\n    assert %s == snapshot(%s)\n" % (k, SITES[k], old.get(k, "")) for k in kinds)


def _hist_invariants(V, d, files, sp, kinds_by_file, label, before=None):
    """I1 name = sha256(content); I2 every reference written resolves to exactly one persisted file holding the outsourced bytes;
    I3 no persisted file without a reference (after trim: none unreferenced at all is not required)."""
    import os
    from ..drivers import plugin

    after = plugin.listing(d)
    store = {k[len(sp):]: v for k, v in after.items() if k.startswith(sp) and not k.endswith(".gitignore")}
    for name, content in store.items():
        stem = name.split(".")[0].replace("-new", "")
        if hashlib.sha256(content).hexdigest() != stem:
            V("name-is-not-sha256-of-content", "%s: %s" % (label, name))
    for f, kinds in kinds_by_file.items():
        text = after[f].decode()
        for k in kinds:
            m = re.search(r"def test_%s\(\):\n    assert .*? == snapshot\(external\(\"([0-9a-f]*)(\*?)([^\"]*)\"\)\)" % k, text)
            if not m:
                continue
            data, suffix = SITE_DATA[k]
            cand = [n for n in store if "-new" not in n and n.startswith(m.group(1)) and n.endswith(m.group(3))]
            if m.group(3) != suffix and before is not None and m.group(0) in before.get(f, ""):
                # the reference was written by an earlier step (for other data) and this step's outsource() call rejected
                # its suffix inside the test: nothing was compared, the old reference legitimately stays
                continue
            if m.group(3) != suffix:
                V("reference-has-wrong-suffix", "%s: test_%s -> %s" % (label, k, m.group(0)[-60:]))
            elif len(cand) != 1:
                V("written-reference-has-no-unique-persisted-file", "%s: test_%s references %s%s%s, persisted %s" % (label, k, m.group(1), m.group(2), m.group(3), sorted(n[:8] + n[64:] for n in store)))
            elif store[cand[0]] != data:
                V("external-data-differs-from-outsourced-data", "%s: test_%s" % (label, k))
    return store, after


def _run_hist(case):
    import os
    from ..drivers import plugin

    viol = []

    def V(what, detail):
        viol.append({"case": case, "what": what, "detail": detail})

    n = 0
    if case["hist"] == "suffix":
        a, b = case["a"], case["b"]
        pp = "[tool.inline-snapshot]\nhash-length = %d\n" % case["hl"]
        d = plugin.mk_project({"pyproject.toml": pp})
        sp = ".inline-snapshot/external/"
        try:
            text = None
            prev_new = set()
            for step, (which, flags) in enumerate(H_FLOWS[case["flow"]]):
                kinds = {"both": [a, b], "first": [a], "swap": [b]}[which]
                if which == "swap" and text:
                    # the test of kind a now outsources what kind b outsources: a pending fix of an existing reference
                    text = text.replace("def test_%s():\n    assert %s ==" % (a, SITES[a]), "def test_%s():\n    assert %s ==" % (b, SITES[b]))
                    src = text
                else:
                    src = _hist_file(kinds, text)
                plugin.write_files(d, {"test_h.py": src})
                r = plugin.session(d, ["--inline-snapshot=" + ",".join(flags)] if flags else [])
                n += 1
                label = "step %d (%s %s)" % (step, which, flags)
                if plugin.internal_error(r["out"]) or r["rc"] not in (0, 1):
                    V("internal-error", "%s rc=%s %s" % (label, r["rc"], r["out"][-600:]))
                    break
                store, after = _hist_invariants(V, d, None, sp, {"test_h.py": kinds}, label, before={"test_h.py": src})
                text = after["test_h.py"].decode()
                stale = [x for x in store if "-new" in x and x in prev_new and not any(
                    hashlib.sha256(SITE_DATA[k][0]).hexdigest() + "-new" + SITE_DATA[k][1] == x for k in kinds)]
                if stale:
                    V("stale-new-file-survived-session-start", "%s: %s" % (label, stale))
                prev_new = {x for x in store if "-new" in x}
                rejected = "path has to be of the form" in r["out"] or "suffix has to start with" in r["out"]  # outsource() refused the suffix inside the test: a test failure of its own
                if not flags and "snapshot()" not in text and r["rc"] != 0 and not rejected:
                    V("plain-session-fails-after-approved-sessions", "%s rc=%s %s" % (label, r["rc"], r["out"][-500:]))
                if viol:
                    break
        finally:
            plugin.cleanup()
    elif case["hist"] == "hashlen":
        src = ("from dataclasses import dataclass\nfrom inline_snapshot import snapshot, outsource\n\n\n@dataclass\nclass DC:\n    a: object\n    b: object\n\n\n"
               "def test_a():\n    %s\n" % HL_SITES[case["site"]])
        hl1, hl2 = case["hl"]
        pp = "[tool.inline-snapshot]\nhash-length = %d\n"
        d = plugin.mk_project({"pyproject.toml": pp % hl1, "test_h.py": src})
        sp = ".inline-snapshot/external/"
        try:
            for step, (hl, flags) in enumerate([(hl1, ["create"]), (hl2, case["second"]), (hl2, ["trim"]), (hl2, []), (hl1, ["trim", "update"]), (hl1, [])]):
                plugin.write_files(d, {"pyproject.toml": pp % hl})
                r = plugin.session(d, ["--inline-snapshot=" + ",".join(flags)] if flags else [])
                n += 1
                label = "step %d (hash-length %d, %s)" % (step, hl, flags)
                if plugin.internal_error(r["out"]) or r["rc"] not in (0, 1):
                    V("internal-error", "%s rc=%s %s" % (label, r["rc"], r["out"][-600:]))
                    break
                after = plugin.listing(d)
                store = {k[len(sp):]: v for k, v in after.items() if k.startswith(sp) and not k.endswith(".gitignore")}
                text = after["test_h.py"].decode()
                try:
                    ast.parse(text)
                except SyntaxError as e:
                    V("file-not-valid-python", "%s: %s" % (label, e))
                    break
                refs = re.findall(r'external\(\s*"([0-9a-f]*)(\*?)(\.\w+)"\s*\)', text)
                want = 1 if case["site"] in ("eq", "dict", "le") else 2
                if len(refs) != want:
                    V("reference-not-written", "%s: %d references, %d outsourced values\n%s" % (label, len(refs), want, text[-300:]))
                for h, star, suf in refs:
                    cand = [x for x in store if "-new" not in x and x.startswith(h) and x.endswith(suf)]
                    if len(cand) != 1 or hashlib.sha256(store[cand[0]]).hexdigest() != cand[0].split(".")[0] or store[cand[0]] not in (b"payload", b"second"):
                        V("written-reference-has-no-unique-persisted-file", "%s: reference %s%s%s, storage %s\n%s" % (label, h, star, suf, sorted(x[:8] + x[64:] for x in store), text[-300:]))
                    elif not star and len(h) != 64:
                        V("partial-hash-written-without-star", "%s: reference %s%s\n%s" % (label, h, suf, text[-300:]))
                if not flags and r["rc"] != 0:
                    V("plain-session-fails-after-approved-sessions", "%s rc=%s %s" % (label, r["rc"], r["out"][-500:]))
                if viol:
                    break
        finally:
            plugin.cleanup()
    elif case["hist"] == "imports":
        body = "\n\ndef test_a():\n    assert outsource(%s) == snapshot()\n\n\ndef test_b():\n    assert [outsource(b'second')] == snapshot()\n"
        data = "'payload'"
        d = plugin.mk_project({"pyproject.toml": "", "testlib.py": IMP_LIB, "test_h.py": IMP_HEADERS[case["header"]] + body % data,
                               "test_other.py": "from inline_snapshot import snapshot, outsource\n\n\ndef test_o():\n    assert outsource('other-data') == snapshot()\n"})
        sp = ".inline-snapshot/external/"
        try:
            for step, flags in enumerate(IMP_FLOWS[case["flow"]]):
                if flags == "newdata":
                    t = plugin.listing(d, text=True)["test_h.py"]
                    plugin.write_files(d, {"test_h.py": t.replace("outsource(%s)" % data, "outsource('changed')")})
                    data = "'changed'"
                    continue
                if flags == "tidy":
                    t = plugin.listing(d, text=True)["test_h.py"]
                    if t.count("from inline_snapshot import external\n") == 0:
                        continue  # nothing was added, nothing to tidy
                    plugin.write_files(d, {"test_h.py": t.replace("from inline_snapshot import external\n", "")})
                    continue
                r = plugin.session(d, ["--inline-snapshot=" + ",".join(flags)] if flags else [])
                n += 1
                label = "step %d (%s)" % (step, flags)
                if plugin.internal_error(r["out"]) or r["rc"] not in (0, 1):
                    V("internal-error", "%s rc=%s %s" % (label, r["rc"], r["out"][-600:]))
                    break
                after = plugin.listing(d)
                store = {k[len(sp):]: v for k, v in after.items() if k.startswith(sp) and not k.endswith(".gitignore")}
                expect = {"test_h.py": [eval(data).encode(), b"second"], "test_other.py": [b"other-data"]}
                for fn, datas in expect.items():
                    text = after[fn].decode()
                    try:
                        ast.parse(text)
                    except SyntaxError as e:
                        V("file-not-valid-python", "%s: %s %s" % (label, fn, e))
                        continue
                    refs = re.findall(r'external\("([0-9a-f]*)\*?(\.\w+)"\)', text)
                    if len(refs) != len(datas):
                        V("reference-not-written", "%s: %s has %d references, %d outsourced values\n%s" % (label, fn, len(refs), len(datas), text))
                        continue
                    for (h, suf), dt in zip(refs, datas):
                        cand = [x for x in store if "-new" not in x and x.startswith(h) and x.endswith(suf)]
                        if len(cand) != 1 or store[cand[0]] != dt or hashlib.sha256(dt).hexdigest() != cand[0].split(".")[0]:
                            V("written-reference-has-no-unique-persisted-file", "%s: %s references %s*%s for %r, storage %s\n%s" % (
                                label, fn, h, suf, dt, sorted(x[:8] + x[64:] for x in store), text[:300]))
                if not flags and r["rc"] != 0:
                    V("plain-session-fails-after-approved-sessions", "%s rc=%s %s" % (label, r["rc"], r["out"][-500:]))
                if viol:
                    break
        finally:
            plugin.cleanup()
    elif case["hist"] == "collision":
        a, b = _collide(case["hl"])
        pp = "[tool.inline-snapshot]\nhash-length = %d\n" % case["hl"]
        tmpl = "from inline_snapshot import snapshot, outsource\n\n\ndef test_x():\n    assert outsource(%r) == snapshot()\n"
        d = plugin.mk_project({"pyproject.toml": pp, "test_first.py": tmpl % a})
        sp = ".inline-snapshot/external/"
        try:
            steps = [(["create"], None)]
            if case["order"] == "first-then-second":
                steps += [(["create"], "add"), (case["flags"], None)]
            else:
                steps = [(["create"], "add-before"), (case["flags"], None)]
            persisted_before = set()
            for step, (flags, edit) in enumerate(steps):
                if edit:
                    plugin.write_files(d, {"test_second.py": tmpl % b})
                r = plugin.session(d, ["--inline-snapshot=" + ",".join(flags)])
                n += 1
                label = "step %d (%s)" % (step, flags)
                if plugin.internal_error(r["out"]) or r["rc"] not in (0, 1):
                    V("internal-error", "%s rc=%s %s" % (label, r["rc"], r["out"][-600:]))
                    break
                after = plugin.listing(d)
                store = {k[len(sp):]: v for k, v in after.items() if k.startswith(sp) and not k.endswith(".gitignore")}
                # (whether colliding data gets persisted at all is the documented price of a short hash-length; the clause
                #  checked here: a persisted file that a participating test file references is not removed by the trim)
                refs = [m for fn in ("test_first.py", "test_second.py") if fn in after for m in re.findall(r'external\("([0-9a-f]*)\*?\.txt"\)', after[fn].decode())]
                if step == len(steps) - 1:
                    for name in persisted_before:
                        if name not in store and any(name.startswith(r_) for r_ in refs):
                            V("referenced-file-trimmed", "%s: %s was persisted and is matched by a reference (%s) but is gone; storage %s" % (label, name[:8] + name[64:], refs, sorted(x[:8] + x[64:] for x in store)))
                persisted_before = {x for x in store if "-new" not in x}
                if viol:
                    break
        finally:
            plugin.cleanup()
    else:
        sub = "tests" if case["layout"] == "tests-subdir" else "pkg/tests"
        pp = '[tool.inline-snapshot]\nstorage-dir = "%s"\n' % case["sd"]
        root = plugin.mk_project({})
        d = os.path.join(root, "proj")
        plugin.write_files(d, {"pyproject.toml": pp, sub + "/test_h.py": _hist_file(["txt", "other"], None)})
        sdir = os.path.normpath(os.path.join(d, case["sd"]))
        try:
            for step, where in enumerate(case["order"]):
                flags = ["create"] if step == 0 else []
                cwd = d if where == "root" else os.path.join(d, sub)
                r = plugin.session(cwd, (["--inline-snapshot=create"] if flags else []) + ([sub] if where == "root" else []))
                n += 1
                label = "step %d (cwd=%s %s)" % (step, where, flags)
                if plugin.internal_error(r["out"]) or r["rc"] not in (0, 1):
                    V("internal-error", "%s rc=%s %s" % (label, r["rc"], r["out"][-600:]))
                    break
                allfiles = plugin.listing(root)
                ext = [k for k in allfiles if "/external/" in k and not k.endswith(".gitignore")]
                prefix = os.path.relpath(sdir, root) + "/external/"
                outside = [k for k in ext if not k.startswith(prefix)]
                if outside:
                    V("file-outside-storage-dir", "%s: %s (storage-dir resolves to %s)" % (label, outside, prefix))
                if step > 0:
                    news = [k for k in ext if "-new" in k]
                    if news:
                        V("stale-new-file-survived-session-start", "%s: %s" % (label, news))
                    if r["rc"] != 0:
                        V("plain-session-fails-after-approved-sessions", "%s rc=%s %s" % (label, r["rc"], r["out"][-500:]))
                if viol:
                    break
        finally:
            plugin.cleanup()
    return viol, n


def run_case(case):
    if "hist" in case:
        return _run_hist(case)[0]
    if "probe" in case:
        return _probe(case["probe"])
    new, r, stray = run_session(case["state"], case["cfg"], case["event"])
    return check_transition(case["state"], case["cfg"], case["event"], new, r, stray)


def run_task(task):
    out = {"n": 0, "nontrivial": [], "outcomes": {}, "violations": [], "samples": [], "states": [], "transitions": 0, "validated": 0, "next": []}
    if "hists" in task:
        for c in task["hists"]:
            v, n = _run_hist(c)
            out["n"] += 1
            out["transitions"] += n
            out["violations"] += v
            lab = "viol:" + v[0]["what"] if v else "ok:history:" + c["hist"]
            out["outcomes"][lab] = out["outcomes"].get(lab, 0) + 1
            if not v:
                out["validated"] += n
                out["nontrivial"].append("hist" + json.dumps(c, sort_keys=True))
        out.pop("next", None)
        return out
    if "probes" in task:
        for p in task["probes"]:
            v = _probe(p)
            out["n"] += 1
            out["violations"] += v
            lab = "viol:" + v[0]["what"] if v else "ok:lookup-probe"
            out["outcomes"][lab] = out["outcomes"].get(lab, 0) + 1
            if not v and len(p["store"]) >= 2:
                out["nontrivial"].append("probe" + json.dumps(p))
        return out
    for state, ev in task["steps"]:
        new, r, stray = run_session(state, task["cfg"], ev)
        v = check_transition(state, task["cfg"], ev, new, r, stray)
        out["n"] += 1
        out["transitions"] += 1
        lab = "run:" + "+".join(ev[1]) + (":" + ev[2] if ev[2] else "")
        if v:
            out["violations"] += v
            lab = "viol:" + v[0]["what"]
        else:
            out["validated"] += 1
            out["next"].append(new)
            if new != state:
                out["nontrivial"].append(key(state) + json.dumps(ev) + json.dumps(task["cfg"]))
        out["outcomes"][lab] = out["outcomes"].get(lab, 0) + 1
    if task["steps"]:
        s, ev = task["steps"][0]
        out["samples"].append({"config": task["cfg"], "storage_before": sorted(s["store"]), "event": ev, "test_a": s["files"].get("test_a.py", "")[-160:]})
    return out


def explore(tier, seed, runner):
    done = []
    allstates = 0
    for ci, cfg in enumerate(CFGS):
        seen = {}
        frontier = []
        for s in initial_states(cfg):
            seen[key(s)] = s
            frontier.append(s)
        for depth in range(_depth(tier, ci)):
            steps = []
            nxt = []
            # edit events are free: close the frontier under edits first
            work = list(frontier)
            while work:
                s = work.pop()
                for ev in events(s):
                    if ev[0] == "run":
                        if not (tier == "quick" and ev[1] in QUICK_SKIP):
                            steps.append((s, ev))
                    else:
                        s2 = apply_edit(s, ev)
                        if key(s2) not in seen:
                            seen[key(s2)] = s2
                            work.append(s2)
            tasks = [{"cfg": cfg, "steps": steps[i : i + 8]} for i in range(0, len(steps), 8)]
            results = runner(tasks)
            for t, r in zip(tasks, results):
                if r and r[0] == "ok":
                    for s2 in r[1].pop("next"):
                        if key(s2) not in seen:
                            seen[key(s2)] = s2
                            nxt.append(s2)
                    r[1]["states"] = [json.dumps(cfg) + key(s) for s, _ in t["steps"]]
                done.append(({"cfg": cfg, "depth": depth, "n": len(t["steps"])}, r))
            frontier = nxt
            if not frontier:
                break
        allstates += len(seen)
    hc = _hist_cases(tier)
    htasks = [{"hists": hc[i : i + 4]} for i in range(0, len(hc), 4)]
    for t, r in zip(htasks, runner(htasks)):
        done.append(({"hists": len(t["hists"])}, r))
    probes = _probes()
    ptasks = [{"probes": probes[i : i + 40]} for i in range(0, len(probes), 40)]
    for t, r in zip(ptasks, runner(ptasks)):
        done.append(({"probes": len(t["probes"])}, r))
    explore.total_states = allstates
    return done


def finish(agg, cov, tier):
    cov["states_including_edit_closure"] = getattr(explore, "total_states", None)


# ------------------------------------------------------------------ lookup clause

def _collide(n=3):
    seen = {}
    i = 0
    while True:
        p = "P%d" % i
        h = SM.sha(p)[:n]
        if h in seen:
            return seen[h], p
        seen[h] = p
        i += 1


def _probes():
    a, b = _collide(3)
    pool = [(a, False), (b, False), (a, True), (b, True), ("Q", False), ("Q", True)]  # (payload, is -new file)
    probes = []
    for k in range(0, 4):
        for combo in itertools.combinations(pool, k):
            names = [(SM.sha(p) + ("-new" if new else "") + ".txt") for p, new in combo]
            if len(set(names)) != len(names):
                continue
            store = {n: p for n, (p, _) in zip(names, combo)}
            queries = set()
            for p in (a, b, "Q", "absent"):
                h = SM.sha(p)
                for L in (0, 1, 2, 3, 4, 5, 64):
                    queries.add(h[:L] + ("*" if L < 64 else "") + ".txt")
            probes.append({"store": store, "queries": sorted(queries)})
    return probes


def _probe(p):
    import os
    import tempfile
    import shutil
    import fnmatch

    try:
        from inline_snapshot._external import DiscStorage
    except Exception as e:  # noqa
        return []
    d = tempfile.mkdtemp(prefix="mc-store-")
    viol = []
    try:
        for n, c in p["store"].items():
            with open(os.path.join(d, n), "w") as f:
                f.write(c)
        st = DiscStorage(d)
        for q in p["queries"]:
            match = [n for n in p["store"] if fnmatch.fnmatchcase(n, q)]
            try:
                data = st.read(q)
                got = ("data", data)
            except Exception as e:  # noqa
                got = ("raise", type(e).__name__)
            if len(match) == 1:
                if got != ("data", p["store"][match[0]].encode()):
                    viol.append({"case": {"probe": p}, "what": "lookup-wrong-data", "detail": "query %s unique match %s got %s" % (q, match, got)})
            elif got[0] != "raise":
                viol.append({"case": {"probe": p}, "what": "ambiguous-or-missing-prefix-resolved", "detail": "query %s matches %s but returned %r" % (q, match, got)})
    finally:
        shutil.rmtree(d, ignore_errors=True)
    return viol[:3]
