"""C14 - each snapshot() call site has its own state; repeated evaluation aggregates.
Schedules: n call sites x every event sequence (site, value) up to a length bound, executed in exactly the scripted
order, x site placements (separate functions, same line, lambdas on one line, nested functions, comprehension,
snapshot passed to a helper, module-level shared by two tests, identical text in two files) x operation tuples.
Oracle: an independent per-site fold of the scripted events vs. the value evaluated from the rewritten file.
Plus: an argument that evaluates differently on its k-th evaluation must fail the test and record nothing."""
from __future__ import annotations

import itertools

ID = "C14"
LEVEL = "model_checking"
RULE = ("programs = (operation per site) x (placement) x every sequence of <= L events over sites x values {0,1,2}; the program "
        "executes the events in the scripted order (one interleaving per program, all interleavings enumerated); states = "
        "distinct per-site aggregate vectors reached, transitions = events executed; the per-site fold (max / min / first-"
        "occurrence union / key set) is computed by the harness from the script alone; validated = programs whose rewritten "
        "arguments evaluate to exactly the folds; non-trivial = >= 2 sites are both evaluated, or one site more than once")
ASSUMPTIONS = ["run_inline executes each file with an empty namespace: cross-file sharing of one snapshot needs imports and is exercised through the real plugin slice only",
               "the exception class for a changed argument is not part of the verdict (UsageError or AssertionError both fail the test loudly)"]
BATCH = 24
VALS = (0, 1, 2)
PLACEMENTS = ("funcs", "sameline", "lambda", "nested", "passed", "module", "comprehension")
OPSETS2 = [("<=", "<="), ("<=", ">="), ("in", "in"), ("<=", "in"), ("[k]", "[k]"), ("in", "[k]"), (">=", "=="), ("==", "=="), ("[k]", "<=")]
OPSETS3 = [("<=", "in", "[k]"), ("in", "in", "in"), ("<=", "<=", ">=")]


def bounds(tier):
    return {"sites": [2, 3], "max_events": _L(tier), "values": list(VALS), "placements": list(PLACEMENTS) + ["twofiles", "plugin-parametrize", "plugin-import"],
            "op_tuples": len(OPSETS2) + len(OPSETS3)}


def _L(tier):
    return 3 if tier == "quick" else 4


def _events(n, L):
    sym = [(s, v) for s in range(n) for v in VALS]
    out = []
    for k in range(1, L + 1):
        out += [list(e) for e in itertools.product(sym, repeat=k)]
    return out


TWINS = [("1", "True"), ("1", "1.0"), ("0", "False"), ("0.0", "-0.0"), ("2", "2.0"), ("HCF('a', 0)", "HCF('a', 3)"), ("(1, 2)", "(True, 2.0)"),
         ("Decimal('1.0')", "Decimal('1.00')"), ("NT2(1, 2)", "(1, 2)"),
         # two values of one type, one with a repr that is code and one that needs HasRepr (not equal, but decided per value)
         ("Flk(1)", "Flk(7)"), ("Flk(8)", "Flk(2)")]
TWIN_WRAPS = ["X", "[X]", "{X}", "frozenset({X})", "{X: 0}", "{'k': X}", "(X, 5)", "[[X], {X}]"]
TWIN_PRE = ("from dataclasses import dataclass, field\nfrom decimal import Decimal\nfrom collections import namedtuple\n\n\n"
            "@dataclass(unsafe_hash=True)\nclass HCF:\n    name: str\n    n: int = field(default=0, compare=False)\n\n\nNT2 = namedtuple('NT2', 'a,b')\n\n\n"
            "class Flk:\n    def __init__(self, n):\n        self.n = n\n    def __eq__(self, o):\n        return self.n == o.n if isinstance(o, Flk) else NotImplemented\n"
            "    def __hash__(self):\n        return 1\n    def __repr__(self):\n        return 'Flk(%d)' % self.n if self.n < 5 else '<Flk %d>' % self.n\n\n\n")


def _cases(tier):
    cases = []
    L = _L(tier)
    for ops in OPSETS2:
        for pl in PLACEMENTS:
            for ev in _events(2, L):
                cases.append({"ops": list(ops), "pl": pl, "ev": [list(e) for e in ev]})
    for ops in OPSETS3:
        for pl in ("funcs", "sameline") if tier == "quick" else PLACEMENTS:
            for ev in _events(3, 3 if tier == "quick" else L):
                if tier == "quick" and len({s for s, _ in ev}) < 3 and len(ev) == 3:
                    continue
                cases.append({"ops": list(ops), "pl": pl, "ev": [list(e) for e in ev]})
    for ops in OPSETS2[:4]:
        for ev in _events(2, 3):
            cases.append({"ops": list(ops), "pl": "twofiles", "ev": [list(e) for e in ev]})
    # argument changes between evaluations: k-th evaluation yields another value
    for op in ("==", "<=", "in", "[k]"):
        for seq in ([5, 6], [5, 5, 6], [5, 6, 5], [[5], [5, 6]], [[5], [6]], ["a", "b"]):
            if op == "in" and isinstance(seq[0], list):
                continue  # `x in snapshot(<non-literal>)` is outside the documented usage of `in`
            cases.append({"reeval": op, "argseq": seq})
    # one textual call that exists twice in the bytecode: the body of a `finally:` block (normal path / exception path),
    # reached through both paths in every order
    for op in ("<=", ">=", "in", "==", "[k]"):
        for n in (1, 2, 3):
            for seq in itertools.product([(f, v) for f in (0, 1) for v in ((0, 1, 2) if op != "==" else (1,))], repeat=n):
                for shape in ("finally", "finally-return", "with-exit"):
                    cases.append({"reeval": "finally", "op": op, "seq": [list(x) for x in seq], "shape": shape})
    # the changing value sits inside a container of the argument: behind a literal key, a key written as a name / attribute /
    # f-string, in a tuple, in a constructor call
    for wrap in ("{'k': X}", "{KEY: X}", "{Col.A: X}", "{f'k{1}': X}", "{'a': 0, KEY: X}", "{KEY: 0, 'b': X}", "(0, X)", "[[X]]", "DCW(v=X)", "{'o': {KEY: [X]}}"):
        for seq in ([5, 6], [5, 5, 6]):
            cases.append({"reeval": "wrapped", "wrap": wrap, "argseq": seq})
    # several handles of one sub-snapshot key obtained before the first comparison, then compared through in every order
    for op in ("<=", ">=", "in"):
        for keys in (["k", "k"], ["k", "j", "k"], ["k", "k", "k"]):
            hv = [(h, v) for h in range(len(keys)) for v in (0, 1, 2)]
            for n in (2, 3):
                if n == 3 and (len(keys) == 3 and tier == "quick"):
                    continue
                for seq in itertools.product(hv, repeat=n):
                    if len({h for h, _ in seq}) < 2:
                        continue
                    for prev in ("", "{'k': 1}") if op != "in" else ("", "{'k': [1]}"):
                        cases.append({"reeval": "handles", "op": op, "keys": keys, "seq": [list(x) for x in seq], "prev": prev})
    # two call sites of one file record values that are equal and hash alike but are written differently: nothing computed
    # for one (a cached text, a shared table keyed by value) may show up in the other
    for a, b in TWINS:
        for wrap in TWIN_WRAPS:
            if a.startswith("Flk") and ("{X" in wrap):
                continue  # HasRepr(...) is not hashable: values that need it cannot be members of sets / keys of dicts
            for op in ("==", "in", "[k]"):
                cases.append({"reeval": "twins", "a": a, "b": b, "wrap": wrap, "op": op})
                cases.append({"reeval": "twins", "a": b, "b": a, "wrap": wrap, "op": op})
    # a comparison that raises at one site (caught by the test) must leave the sites evaluated afterwards alone
    for raiser in RAISERS:
        for op in LATER:
            for prev in (True, False):
                for where in ("same-test", "next-test"):
                    cases.append({"reeval": "raising", "raiser": raiser, "op": op, "prev": prev, "where": where})
    # one object that grows between the evaluations of one call site: every state it was compared in counts
    for op in GROWING:
        for prev in (True, False):
            for F in ([], ["trim"], ["create", "fix", "trim", "update"], ["create"]):
                cases.append({"reeval": "growing", "op": op, "prev": prev, "F": F})
    # the argument is an expression that yields the same (long-lived) object each time, modified in place between evaluations
    for op in ("==", "<=", "[k]"):
        for arg in ("ROW", "[ROW, 'end']", "{'k': ROW}", "(ROW, 1)", "DCR(x=ROW)", "[[ROW]]", "TABLE", "TABLE['cols']"):
            for mut in ("ROW.append(6)", "ROW[0] = 7", "ROW.clear()"):
                cases.append({"reeval": op, "mutarg": arg, "mut": mut})
    return cases


def build(tier, seed):
    cs = _cases(tier)
    normal = [c for c in cs if c.get("pl") != "twofiles" and "reeval" not in c]
    other = [c for c in cs if c.get("pl") == "twofiles" or "reeval" in c]
    tasks = [{"cases": normal[i : i + BATCH]} for i in range(0, len(normal), BATCH)]
    tasks += [{"singles": other[i : i + 24]} for i in range(0, len(other), 24)]
    tasks += [{"plugin": k} for k in ("parametrize", "import", "twofiles", "isolation")]
    return tasks


def _cmp(op, x, s):
    if op == "[k]":
        return "%s[%s] == %s" % (s, x, x)
    return "%s %s %s" % (x, op, s)


def _val(op, site, v):
    """== sites must see one value only: use a per-site constant."""
    return 7 + site if op == "==" else v


def fold(ops, ev):
    """Independent aggregation of the scripted events, per site."""
    res = {}
    for s, v in ev:
        op = ops[s]
        v = _val(op, s, v)
        if s not in res:
            res[s] = {"<=": v, ">=": v, "in": [v], "[k]": {v: v}, "==": v}[op]
        elif op == "<=":
            res[s] = max(res[s], v)
        elif op == ">=":
            res[s] = min(res[s], v)
        elif op == "in":
            if v not in res[s]:
                res[s].append(v)
        elif op == "[k]":
            res[s].setdefault(v, v)
    return res


def gen(j, c):
    """Returns (module-level source, test source). Site order in the text is site 0, 1, 2."""
    ops, pl, ev = c["ops"], c["pl"], c["ev"]
    n = len(ops)
    P = "p%d_" % j
    calls = []
    pre = ""
    body = []
    E = [(s, _val(ops[s], s, v)) for s, v in ev]
    if pl == "funcs":
        for i, op in enumerate(ops):
            pre += "def %sf%d(x):\n    return %s\n\n\n" % (P, i, _cmp(op, "x", "snapshot()"))
        body = ["%sf%d(%r)" % (P, s, v) for s, v in E]
    elif pl == "sameline":
        expr = "(%s)" % _cmp(ops[-1], "x", "snapshot()")
        for i in range(n - 2, -1, -1):
            expr = "(%s) if i == %d else %s" % (_cmp(ops[i], "x", "snapshot()"), i, expr)
        pre = "def %sf(i, x):\n    return %s\n\n\n" % (P, expr)
        body = ["%sf(%d, %r)" % (P, s, v) for s, v in E]
    elif pl == "lambda":
        pre = "%sfs = [%s]\n\n\n" % (P, ", ".join("lambda x: " + _cmp(op, "x", "snapshot()") for op in ops))
        body = ["%sfs[%d](%r)" % (P, s, v) for s, v in E]
    elif pl == "nested":
        for i, op in enumerate(ops):
            body += ["def f%d(x):" % i, "    return " + _cmp(op, "x", "snapshot()")]
        body += ["f%d(%r)" % (s, v) for s, v in E]
    elif pl == "passed":
        for i, op in enumerate(ops):
            pre += "def %scheck%d(x, s):\n    return %s\n\n\n" % (P, i, _cmp(op, "x", "s"))
        body = ["for i, x in %r:" % (E,)]
        for i in range(n):
            body += ["    %s i == %d:" % ("if" if i == 0 else "elif", i), "        %scheck%d(x, snapshot())" % (P, i)]
    elif pl == "module":
        for i in range(n):
            pre += "%ss%d = snapshot()\n" % (P, i)
        pre += "\n\n"
        half = (len(E) + 1) // 2
        a = [_cmp(ops[s], repr(v), "%ss%d" % (P, s)) for s, v in E[:half]]
        b = [_cmp(ops[s], repr(v), "%ss%d" % (P, s)) for s, v in E[half:]]
        return pre, ("def test_%da():\n" % j + "".join("    " + l + "\n" for l in a or ["pass"])
                     + "\n\ndef test_%db():\n" % j + "".join("    " + l + "\n" for l in b or ["pass"]))
    elif pl == "comprehension":
        expr = "(%s)" % _cmp(ops[-1], "x", "snapshot()")
        for i in range(n - 2, -1, -1):
            expr = "(%s) if i == %d else %s" % (_cmp(ops[i], "x", "snapshot()"), i, expr)
        body = ["_r = [%s for i, x in %r]" % (expr, E)]
    return pre, "def test_%d():\n" % j + "".join("    " + l + "\n" for l in body)


def _judge(cases):
    from ..drivers.inline import run_inline
    from ..oracles.locate import snapshot_calls

    n = len(cases)
    if len(cases) == 1 and "reeval" in cases[0]:
        return _judge_reeval(cases[0])
    if len(cases) == 1 and cases[0]["pl"] == "twofiles":
        return _judge_twofiles(cases[0])
    pre, tests = "", ""
    for j, c in enumerate(cases):
        p, t = gen(j, c)
        pre += p
        tests += t + "\n\n"
    src = "from inline_snapshot import snapshot\n\n\n" + pre + tests
    ctx = {"src": src}
    r = run_inline({"test_something.py": src}, ["create"])
    if r["error"]:
        return [("internal-error", r["error"]["type"] + ": " + r["error"]["msg"][:300])] * n, ctx
    if r["raised"]:
        return [("test-raised", str(r["raised"])[:300])] * n, ctx
    after = r["files"]["test_something.py"]
    ctx["after"] = after
    try:
        calls = snapshot_calls(after)
    except SyntaxError as e:
        return [("unparsable", str(e))] * n, ctx
    # calls appear in source order: all module-level/helper sites of program 0.. then test bodies; map by counting per program
    idx = _site_index(cases)
    if len(calls) != len(idx):
        return [("call-count-changed", "%d vs %d" % (len(calls), len(idx)))] * n, ctx
    got = {}
    for call, (j, s) in zip(calls, idx):
        got[(j, s)] = call["arg_text"].strip()
    out = []
    for j, c in enumerate(cases):
        exp = fold(c["ops"], c["ev"])
        v = None
        for s in range(len(c["ops"])):
            txt = got.get((j, s), "")
            if s not in exp:
                if txt != "":
                    v = ("value-leaked-into-unevaluated-site", "site %d was never evaluated but holds %s" % (s, txt))
                    break
                continue
            try:
                val = eval(txt, {})
            except Exception as e:  # noqa
                v = ("site-value-not-evaluable", "site %d: %r (%s)" % (s, txt, e))
                break
            if val != exp[s] or repr(val) != repr(exp[s]):
                v = ("site-aggregate-differs", "site %d holds %s, independent fold of its events gives %r (events %s, ops %s)" % (s, txt, exp[s], c["ev"], c["ops"]))
                break
        out.append(v)
    return out, ctx


def _site_index(cases):
    """Order in which the snapshot() calls of a batch appear in the generated text."""
    pre_sites, test_sites = [], []
    for j, c in enumerate(cases):
        n = len(c["ops"])
        if c["pl"] in ("funcs", "sameline", "lambda", "module"):
            pre_sites += [(j, s) for s in range(n)]
        else:
            test_sites += [(j, s) for s in range(n)]
    return pre_sites + test_sites


def _judge_twofiles(c):
    from ..drivers.inline import run_inline
    from ..oracles.locate import snapshot_calls

    files = {}
    ops = c["ops"]
    for s, name in enumerate(("test_a.py", "test_b.py")):
        E = [(_val(ops[t], t, v)) for t, v in c["ev"] if t == s]
        # identical text in both files except the data line at the end
        files[name] = ("from inline_snapshot import snapshot\n\n\ndef f(x):\n    return %s\n\n\ndef test_x():\n    for x in DATA:\n        f(x)\n\n\nDATA = %r\n"
                       % (_cmp(ops[s] if ops[0] == ops[1] else ops[s], "x", "snapshot()"), E))
    ctx = {"src": repr(files)}
    r = run_inline(files, ["create"])
    if r["error"] or r["raised"]:
        return [("internal-error", str(r["error"] or r["raised"])[:300])], ctx
    exp = fold(ops, c["ev"])
    ctx["after"] = repr(r["files"])
    for s, name in enumerate(("test_a.py", "test_b.py")):
        txt = snapshot_calls(r["files"][name])[0]["arg_text"].strip()
        if s not in exp:
            if txt:
                return [("value-leaked-into-unevaluated-site", "%s holds %s" % (name, txt))], ctx
            continue
        if repr(eval(txt, {})) != repr(exp[s]):
            return [("site-aggregate-differs", "%s holds %s, fold gives %r" % (name, txt, exp[s]))], ctx
    return [None], ctx


def _judge_reeval(c):
    from ..drivers.inline import run_inline
    from ..oracles.locate import snapshot_calls

    if "mutarg" in c:
        return _judge_reeval_mut(c)
    if c["reeval"] == "growing":
        return _judge_growing(c)
    if c["reeval"] == "raising":
        return _judge_raising(c)
    if c["reeval"] == "handles":
        return _judge_handles(c)
    if c["reeval"] == "wrapped":
        return _judge_wrapped(c)
    if c["reeval"] == "finally":
        return _judge_finally(c)
    if c["reeval"] == "twins":
        return _judge_twins(c)
    op, seq = c["reeval"], c["argseq"]
    x = {"==": "ARGS[0]", "<=": "0", "in": "ARGS[0]", "[k]": "1"}[op]
    arg = "next(it)" if op != "[k]" else "{0: next(it)}"
    cmp_ = {"==": "%s == snapshot(%s)" % (x, arg), "<=": "%s <= snapshot(%s)" % ("ARGS[0]", arg),
            "in": "%s[0] in snapshot(%s)" % ("ARGS", arg) if isinstance(seq[0], list) else "0 in snapshot([next(it)])",
            "[k]": "snapshot(%s)[0] == ARGS[0]" % arg}[op]
    src = ("from inline_snapshot import snapshot\n\nARGS = %r\nit = iter(ARGS)\n\n\ndef f():\n    return %s\n\n\ndef test_0():\n    for _ in ARGS:\n        f()\n" % (seq, cmp_))
    ctx = {"src": src}
    r = run_inline({"test_something.py": src}, ["create", "fix", "trim", "update"])
    ctx["after"] = r["files"].get("test_something.py", "")
    if r["error"]:
        return [("internal-error", r["error"]["type"] + ": " + r["error"]["msg"][:200])], ctx
    if not r["raised"]:
        return [("changed-argument-not-rejected", "argument sequence %r, no exception; file:\n%s" % (seq, ctx["after"][-300:]))], ctx
    return [None], ctx


def _judge_finally(c):
    from ..drivers.inline import run_inline
    from ..oracles.locate import snapshot_calls

    op, seq, shape = c["op"], c["seq"], c["shape"]
    cmp_ = {"<=": "_ok = v <= snapshot()", ">=": "_ok = v >= snapshot()", "in": "_ok = v in snapshot()", "==": "_ok = v == snapshot()", "[k]": "_ok = v <= snapshot()['k']"}[op]
    if shape == "finally":
        body = "def site(fail, v):\n    try:\n        if fail:\n            raise KeyError('x')\n    finally:\n        %s\n" % cmp_
    elif shape == "finally-return":
        body = "def site(fail, v):\n    try:\n        if fail:\n            raise KeyError('x')\n        return 1\n    finally:\n        %s\n" % cmp_
    else:
        body = ("import contextlib\n\n\ndef site(fail, v):\n    with contextlib.suppress(KeyError):\n        try:\n            if fail:\n                raise KeyError('x')\n"
                "        finally:\n            for _ in (1,):\n                %s\n" % cmp_)
    calls = "".join("    try:\n        site(%d, %d)\n    except KeyError:\n        pass\n" % (f, v) for f, v in seq)
    src = "from inline_snapshot import snapshot\n\n\n" + body + "\n\ndef test_0():\n" + calls
    ctx = {"src": src}
    r = run_inline({"test_something.py": src}, ["create"])
    ctx["after"] = r["files"].get("test_something.py", "")
    if r["error"]:
        return [("internal-error", r["error"]["type"] + ": " + r["error"]["msg"][:200])], ctx
    if r["raised"]:
        return [("test-raised", str(r["raised"])[:200])], ctx
    vals = [v for _, v in seq]
    fold = {"<=": max(vals), ">=": min(vals), "==": vals[0], "[k]": {"k": max(vals)}}.get(op)
    if op == "in":
        fold = [x for i, x in enumerate(vals) if x not in vals[:i]]
    try:
        cs = snapshot_calls(ctx["after"])
        got = eval(cs[0]["arg_text"] or "None")
    except Exception as e:  # noqa
        return [("written-argument-not-evaluable", "%s" % e)], ctx
    if cs[0]["nargs"] != 1 or got != fold:
        return [("site-aggregate-differs", "paths %s: written snapshot(%s), fold of the observations %r" % (seq, cs[0]["arg_text"].strip()[:80], fold))], ctx
    return [None], ctx


RAISERS = {  # a comparison at one call site that raises (and is caught by the test) before the other sites are evaluated
    "eq-align-list": "[Boom(), 2] == snapshot([1, 2, 3])",
    "eq-align-tuple": "(Boom(), 1) == snapshot((1,))",
    "eq-dict-value": "{'a': [Boom()]} == snapshot({'a': [1, 2]})",
    "eq-plain": "Boom() == snapshot(1)",
    "le-typeerror": "'a' <= snapshot(5)",
    "sub-align": "snapshot({'k': [1, 2]})['k'] == [Boom()]",
}
LATER = {  # op: (site source with V = the value list, fold of the observations [1, 2] from an empty snapshot / from the previous value)
    "==": ("for v in (V):\n        _ok = [v // v, 2] == snapshot(P)", "[7]", [1, 2], [1, 2]),
    "<=": ("for v in (V):\n        _ok = v <= snapshot(P)", "0", 2, 2),
    "in": ("for v in (V):\n        _ok = v in snapshot(P)", "[7]", [1, 2], [7, 1, 2]),
    "[k]": ("s = snapshot(P)\n    for v in (V):\n        _ok = s['k%d' % v] == v", "{'z': 0}", {"k1": 1, "k2": 2}, {"z": 0, "k1": 1, "k2": 2}),
}


def _judge_raising(c):
    from ..drivers.inline import run_inline
    from ..oracles.locate import snapshot_calls

    site, prevtxt, fold_, fold_prev = LATER[c["op"]]
    fold_ = fold_prev if c["prev"] else fold_
    site = site.replace("(V)", "(1, 2)").replace("P", prevtxt if c["prev"] else "")
    boom = "class Boom:\n    def __eq__(self, o):\n        if not isinstance(o, Boom):\n            raise KeyError('boom')  # only for foreign types: the copy made when a value is recorded compares fine\n        return True\n\n    __hash__ = None\n\n\n"
    first = "    try:\n        _r = %s\n    except (KeyError, TypeError):\n        pass\n" % RAISERS[c["raiser"]]
    if c["where"] == "same-test":
        body = "def test_0():\n" + first + "    " + site + "\n"
    else:
        body = "def test_0():\n" + first + "\n\ndef test_1():\n    " + site + "\n"
    src = "from inline_snapshot import snapshot\n\n\n" + boom + body
    ctx = {"src": src}
    r = run_inline({"test_something.py": src}, ["create", "fix"])
    ctx["after"] = r["files"].get("test_something.py", "")
    if r["error"]:
        return [("internal-error", r["error"]["type"] + ": " + r["error"]["msg"][:200])], ctx
    if r["raised"]:
        return [("test-raised", str(r["raised"])[:200])], ctx
    try:
        cs = snapshot_calls(ctx["after"])
        got = eval(cs[1]["arg_text"] or "None")
    except Exception as e:  # noqa
        return [("written-argument-not-evaluable", "%s" % e)], ctx
    if cs[1]["nargs"] != 1 or got != fold_ or type(got) is not type(fold_):
        return [("site-after-raising-comparison-differs", "after `%s` raised: written snapshot(%s), fold of the observations %r" % (RAISERS[c["raiser"]], cs[1]["arg_text"].strip()[:80], fold_))], ctx
    return [None], ctx


def _judge_wrapped(c):
    from ..drivers.inline import run_inline

    seq, wrap = c["argseq"], c["wrap"]
    pre = ("from dataclasses import dataclass\nfrom enum import Enum\nfrom inline_snapshot import snapshot\n\n\nKEY = 'kn'\n\n\nclass Col(Enum):\n    A = 1\n\n\n"
           "@dataclass\nclass DCW:\n    v: object\n\n\n")
    first = wrap.replace("X", repr(seq[0]))
    src = pre + "ARGS = %r\nit = iter(ARGS)\n\n\ndef f():\n    return %s == snapshot(%s)\n\n\ndef test_0():\n    for _ in ARGS:\n        f()\n" % (seq, first, wrap.replace("X", "next(it)"))
    ctx = {"src": src}
    for flags in ([], ["create", "fix", "trim"]):
        r = run_inline({"test_something.py": src}, flags)
        ctx["after"] = r["files"].get("test_something.py", "")
        if r["error"]:
            return [("internal-error", r["error"]["type"] + ": " + r["error"]["msg"][:200])], ctx
        if not r["raised"]:
            return [("changed-argument-not-rejected", "argument %s with values %r (flags %s): no exception" % (wrap, seq, flags))], ctx
        if ctx["after"] != src:
            return [("changed-argument-recorded", "flags %s:\n%s" % (flags, ctx["after"][-300:]))], ctx
    return [None], ctx


def _judge_twins(c):
    from ..drivers.inline import run_inline
    from ..oracles.locate import snapshot_calls
    import sys
    import types

    vals = [c["wrap"].replace("X", c["a"]), c["wrap"].replace("X", c["b"])]
    cmp_ = {"==": "assert %s == snapshot()", "in": "assert %s in snapshot()", "[k]": "assert snapshot()['k'] == %s"}[c["op"]]
    src = "from inline_snapshot import snapshot\n" + TWIN_PRE + "".join("def test_%d():\n    %s\n\n\n" % (i, cmp_ % v) for i, v in enumerate(vals))
    ctx = {"src": src}
    r = run_inline({"test_something.py": src}, ["create"])
    ctx["after"] = r["files"].get("test_something.py", "")
    if r["error"]:
        return [("internal-error", r["error"]["type"] + ": " + r["error"]["msg"][:200])], ctx
    if r["raised"]:
        return [("test-raised", str(r["raised"])[:200])], ctx
    mod = types.ModuleType("c14_twins")
    sys.modules[mod.__name__] = mod
    exec(compile("from inline_snapshot import HasRepr\n" + TWIN_PRE, "<twins>", "exec"), mod.__dict__)
    calls = snapshot_calls(ctx["after"])
    for i, v in enumerate(vals):
        want = eval(v, mod.__dict__)
        want = [want] if c["op"] == "in" else ({"k": want} if c["op"] == "[k]" else want)
        try:
            got = eval(calls[i]["arg_text"], mod.__dict__)
        except Exception as e:  # noqa
            return [("written-argument-not-evaluable", "%s: %s" % (calls[i]["arg_text"][:100], e))], ctx
        if "HasRepr(" in calls[i]["arg_text"]:
            if not (got == want):
                return [("value-of-another-call-site-written", "site %d observed %s, written snapshot(%s)" % (i, v, calls[i]["arg_text"].strip()[:100]))], ctx
        elif repr(got) != repr(want):
            return [("value-of-another-call-site-written", "site %d observed %s, written snapshot(%s) = %r (the other site observed %s)" % (
                i, v, calls[i]["arg_text"].strip()[:100], got, vals[1 - i]))], ctx
    return [None], ctx


def _judge_handles(c):
    from ..drivers.inline import run_inline
    from ..oracles.locate import snapshot_calls

    op, keys, seq, prev = c["op"], c["keys"], c["seq"], c["prev"]
    lines = ["s = snapshot(%s)" % prev] + ["h%d = s[%r]" % (i, k) for i, k in enumerate(keys)]
    lines += ["_ok = %r %s h%d" % (v, op, h) for h, v in seq]
    src = "from inline_snapshot import snapshot\n\n\ndef test_0():\n" + "".join("    " + l + "\n" for l in lines)
    ctx = {"src": src}
    r = run_inline({"test_something.py": src}, ["create", "fix", "trim"])
    ctx["after"] = r["files"].get("test_something.py", "")
    if r["error"]:
        return [("internal-error", r["error"]["type"] + ": " + r["error"]["msg"][:200])], ctx
    if r["raised"]:
        return [("test-raised", str(r["raised"])[:200])], ctx
    exp = {}
    for h, v in seq:
        exp.setdefault(keys[h], []).append(v)
    if op == "in":
        # fix appends the missing members to the previous list, trim removes the members that were never tested
        fold = {}
        for k, vs in exp.items():
            n = [x for i, x in enumerate(vs) if x not in vs[:i]]
            old = [1] if (prev and k == "k") else []
            fold[k] = [x for x in old if x in n] + [x for x in n if x not in old]
    else:
        fold = {k: (max(vs) if op == "<=" else min(vs)) for k, vs in exp.items()}
    try:
        got = eval(snapshot_calls(ctx["after"])[0]["arg_text"] or "None")
    except Exception as e:  # noqa
        return [("written-argument-not-evaluable", str(e))], ctx
    if got != fold:
        return [("site-aggregate-differs", "handles %s, comparisons %s %s: written %r, per-key fold %r" % (keys, op, seq, got, fold))], ctx
    return [None], ctx


GROWING = {  # op: (comparison with the growing list p (state number i), aggregate over the states [1], [1, 2], [1, 2, 3])
    "in": ("assert p in snapshot(%s)", "[[1], [1, 2], [1, 2, 3]]"),
    "<=": ("assert p <= snapshot(%s)", "[1, 2, 3]"),
    ">=": ("assert p >= snapshot(%s)", "[1]"),
    "[k]": ("assert snapshot(%s)[i] == p", "{1: [1], 2: [1, 2], 3: [1, 2, 3]}"),
    "[k]in": ("assert p in snapshot(%s)['k']", "{'k': [[1], [1, 2], [1, 2, 3]]}"),
}


def _judge_growing(c):
    from ..drivers.inline import run_inline
    from ..oracles.locate import snapshot_calls

    stmt, agg = GROWING[c["op"]]
    src = "from inline_snapshot import snapshot\n\n\ndef test_0():\n    p = []\n    for i in (1, 2, 3):\n        p.append(i)\n        %s\n    p.append(9)\n" % (stmt % (agg if c["prev"] else ""))
    ctx = {"src": src}
    r = run_inline({"test_something.py": src}, c["F"])
    if r["error"]:
        return [("internal-error", r["error"]["type"] + ": " + r["error"]["msg"][:200])], ctx
    after = r["files"].get("test_something.py", src)
    ctx["after"] = after
    txt = snapshot_calls(after)[0]["arg_text"].strip()
    if c["prev"]:
        # every state is a member / the bound is tight / every key was read: nothing is pending whatever is approved
        if after != src or set(r["reported"] or []) - {"update"}:
            return [("site-aggregate-differs", "all states of the object were compared and are in the snapshot, flags %s: reported %s, argument now %s" % (c["F"], r["reported"], txt))], ctx
    elif "create" in c["F"]:
        if repr(eval(txt or "None", {})) != repr(eval(agg, {})):
            return [("site-aggregate-differs", "created %s, the states compared give %s" % (txt, agg))], ctx
    elif after != src:
        return [("changed-without-approval", txt)], ctx
    return [None], ctx


def _judge_reeval_mut(c):
    from ..drivers.inline import run_inline

    op, arg, mut = c["reeval"], c["mutarg"], c["mut"]
    pre = ("from dataclasses import dataclass\nfrom inline_snapshot import snapshot\n\n\n@dataclass\nclass DCR:\n    x: object\n\n\n"
           "ROW = [5]\nTABLE = {'cols': ROW, 'n': 1}\n\n\n")
    first = "eval(%r)" % arg  # the value the argument has at its first evaluation (compared with itself: passes)
    cmp_ = {"==": "FIRST == snapshot(%s)" % arg, "<=": "FIRST <= snapshot(%s)" % arg, "[k]": "snapshot({0: %s})[0] == FIRST" % arg}[op]
    src = pre + "import copy\nFIRST = copy.deepcopy(%s)\n\n\ndef f():\n    return %s\n\n\ndef test_0():\n    f()\n    %s\n    f()\n" % (arg, cmp_, mut)
    ctx = {"src": src}
    # (update is left out: it may legitimately turn the hand-written expression into the literal of the first, equal, evaluation)
    for flags in ([], ["create", "fix", "trim"]):
        r = run_inline({"test_something.py": src}, flags)
        ctx["after"] = r["files"].get("test_something.py", "")
        if r["error"]:
            return [("internal-error", r["error"]["type"] + ": " + r["error"]["msg"][:200])], ctx
        if not r["raised"]:
            return [("changed-argument-not-rejected", "argument %s modified in place by %s (flags %s): no exception" % (arg, mut, flags))], ctx
        if ctx["after"] != src:
            return [("changed-argument-recorded", "flags %s:\n%s" % (flags, ctx["after"][-300:]))], ctx
    return [None], ctx


def _plugin(kind):
    """Real sessions: parametrized tests share one call site; a module-level snapshot imported by a second file;
    identical text in two files evaluated in one session."""
    from ..drivers import plugin
    from ..oracles.locate import snapshot_calls

    viol = []
    if kind == "parametrize":
        for op, exp in (("<=", "3"), (">=", "1"), ("in", "[2, 3, 1]"), ("[k]", "{2: 2, 3: 3, 1: 1}")):
            src = ("import pytest\nfrom inline_snapshot import snapshot\n\n\n@pytest.mark.parametrize('x', [2, 3, 1])\ndef test_p(x):\n    assert %s\n\n\n"
                   "@pytest.mark.parametrize('y', [5, 4])\ndef test_q(y):\n    assert %s\n" % (_cmp(op, "x", "snapshot()"), _cmp(op, "y", "snapshot()")))
            d = plugin.mk_project({"test_something.py": src, "pyproject.toml": ""})
            try:
                r = plugin.session(d, ["--inline-snapshot=create"])
                after = plugin.listing(d, text=True)["test_something.py"]
            finally:
                plugin.cleanup()
            calls = snapshot_calls(after)
            got = [repr(eval(c["arg_text"] or "None", {})) for c in calls]
            exp2 = {"<=": "5", ">=": "4", "in": "[5, 4]", "[k]": "{5: 5, 4: 4}"}[op]
            if got != [repr(eval(exp, {})), repr(eval(exp2, {}))]:
                viol.append({"case": {"plugin": kind, "op": op}, "what": "site-aggregate-differs", "detail": "parametrized sites hold %s, expected %s / %s\n%s" % (got, exp, exp2, after)})
    elif kind == "import":
        files = {
            "shared.py": "from inline_snapshot import snapshot\n\ns = snapshot()\nt = snapshot()\n",
            "test_a.py": "from shared import s, t\n\n\ndef test_a():\n    assert 1 <= s\n    assert 5 in t\n",
            "test_b.py": "from shared import s, t\n\n\ndef test_b():\n    assert 3 <= s\n    assert 6 in t\n    assert 5 in t\n",
            "pyproject.toml": "",
        }
        d = plugin.mk_project(files)
        try:
            r = plugin.session(d, ["--inline-snapshot=create"])
            after = plugin.listing(d, text=True)
        finally:
            plugin.cleanup()
        calls = snapshot_calls(after["shared.py"])
        got = [c["arg_text"].strip() for c in calls]
        if [repr(eval(g or "None", {})) for g in got] != ["3", "[5, 6]"]:
            viol.append({"case": {"plugin": kind}, "what": "site-aggregate-differs", "detail": "shared module-level snapshots hold %s, expected 3 and [5, 6]\n%s" % (got, r["out"][-600:])})
    elif kind == "twofiles":
        t = "from inline_snapshot import snapshot\n\n\ndef f(x):\n    return x <= snapshot()\n\n\ndef test_x():\n    for x in DATA:\n        f(x)\n\n\nDATA = %r\n"
        files = {"test_a.py": t % ([1, 2],), "test_b.py": t % ([9, 8],), "sub/test_a.py": t % ([4],), "pyproject.toml": "", "sub/__init__.py": "", "__init__.py": ""}
        d = plugin.mk_project(files)
        try:
            r = plugin.session(d, ["--inline-snapshot=create"])
            after = plugin.listing(d, text=True)
        finally:
            plugin.cleanup()
        got = {k: snapshot_calls(v)[0]["arg_text"].strip() for k, v in after.items() if k.endswith("test_a.py") or k.endswith("test_b.py")}
        if got != {"test_a.py": "2", "test_b.py": "9", "sub/test_a.py": "4"}:
            viol.append({"case": {"plugin": kind}, "what": "site-aggregate-differs", "detail": "identical text in several files: %s\n%s" % (got, r["out"][-600:])})
    elif kind == "isolation":
        # what is written for the sites of one file must not depend on which other files take part in the session
        opq = ("class Opaque:\n    def __init__(self, n):\n        self.n = n\n    def __repr__(self):\n        return '<Opaque %d>' % self.n\n"
               "    def __eq__(self, o):\n        return self.n == o.n if isinstance(o, Opaque) else NotImplemented\n\n\n")
        others = {
            "hasrepr": "from inline_snapshot import snapshot\n\n\n" + opq + "def test_o():\n    assert Opaque(1) == snapshot()\n",
            "external": "from inline_snapshot import snapshot, outsource\n\n\ndef test_o():\n    assert outsource('data') == snapshot()\n",
            "same-sites": "from inline_snapshot import snapshot\n\n\ndef test_b():\n    assert 7 <= snapshot()\n    assert 'x' in snapshot(['y'])\n",
            "failing": "from inline_snapshot import snapshot\n\n\ndef test_o():\n    assert 1 == snapshot(2)\n    raise ValueError('x')\n",
        }
        subject = "from inline_snapshot import snapshot\n\n\ndef test_b():\n    assert 5 <= snapshot()\n    assert 'a' in snapshot(['b'])\n    assert [1, 2] == snapshot([1])\n"
        alone = None
        for name, other in [(None, None)] + sorted(others.items()):
            for oname in ("test_a.py", "test_c.py"):
                files = {"test_b.py": subject, "pyproject.toml": ""}
                if other is not None:
                    files[oname] = other
                d = plugin.mk_project(files)
                try:
                    r = plugin.session(d, ["--inline-snapshot=create,fix"])
                    got = plugin.listing(d, text=True)["test_b.py"]
                finally:
                    plugin.cleanup()
                if alone is None:
                    alone = got
                elif got != alone:
                    viol.append({"case": {"plugin": kind}, "what": "site-result-depends-on-other-files",
                                 "detail": "with %s as %s test_b.py becomes\n%s\ninstead of\n%s" % (name, oname, got[-400:], alone[-400:])})
                if other is None:
                    break
    return viol


def run_case(case):
    from ..engine import batch

    if "plugin" in case:
        return _plugin(case["plugin"])
    return batch.replay(case, _judge)


def run_task(task):
    from ..engine import batch

    if "plugin" in task:
        v = _plugin(task["plugin"])
        return {"n": 1, "nontrivial": [] if v else ["plugin:" + task["plugin"]], "outcomes": {("viol:" + v[0]["what"]) if v else "ok:plugin:" + task["plugin"]: 1},
                "violations": v, "samples": [], "states": [], "transitions": 1, "validated": 0 if v else 1}
    if "singles" in task:
        agg = None
        for c in task["singles"]:
            r1 = run_task({"cases": [c]})
            if agg is None:
                agg = r1
            else:
                for k in ("n", "transitions", "validated"):
                    agg[k] += r1[k]
                for k in ("nontrivial", "violations", "states"):
                    agg[k] += r1[k]
                for k, v in r1["outcomes"].items():
                    agg["outcomes"][k] = agg["outcomes"].get(k, 0) + v
        return agg
    r = batch.run_batched(task["cases"], _judge, label=lambda c: "ok:reeval" if "reeval" in c else "ok:" + c["pl"],
                          key=lambda c: repr(sorted(c.items())))
    states, trans, keep = [], 0, set()
    for c in task["cases"]:
        if "reeval" in c:
            keep.add(repr(sorted(c.items())))
            continue
        f = fold(c["ops"], c["ev"])
        states.append(repr((c["ops"], sorted(f.items(), key=lambda kv: kv[0]))))
        trans += len(c["ev"])
        sites = [s for s, _ in c["ev"]]
        if len(set(sites)) >= 2 or len(sites) >= 2:
            keep.add(repr(sorted(c.items())))
    r["validated"] = sum(v for k, v in r["outcomes"].items() if k.startswith("ok"))
    r["nontrivial"] = [k for k in r["nontrivial"] if k in keep]
    r["states"] = states
    r["transitions"] = trans
    return r
