"""C20 - a formatter-clean test file stays formatter-clean.
24 black option combinations (line-length x skip-magic-trailing-comma x skip-string-normalization x preview) x files made
clean under that mode by the harness's own black call x change sets whose new text length sweeps across the wrap limit;
oracle: the rewritten file is a fixed point of an independently built black.Mode (formatter instability is recorded, not
reported).  Not-clean twins of the same files: layout outside the edited arguments is untouched (C03's skeleton oracle)."""
from __future__ import annotations

import itertools

ID = "C20"
LEVEL = "exploration"
RULE = ("modes = line-length {30, 60, 88} x skip-magic-trailing-comma x skip-string-normalization x preview; per mode a sweep of "
        "change kinds (create list of n ints, growing fix, shrinking fix of a wrapped argument, strings of growing length with "
        "both quote kinds, nested dict of lists, insert next to a magic trailing comma, create in a long statement, trim) with n "
        "running from well below to well above the limit; every file is formatted by the harness first (clean) and also run as a "
        "not-clean twin; non-trivial = the file changed and (clean) the independent black call was evaluated on it; distinct = (mode, kind, n, twin)")
ASSUMPTIONS = ["black 26.5.1; its configuration is read from the cwd's pyproject.toml (the session's project directory)",
               "a result that black itself does not format idempotently is attributed to the formatter (recorded as instability)"]
BATCH = 8
MODES = [{"ll": ll, "smtc": a, "ssn": b, "preview": p} for ll in (30, 60, 88) for a in (False, True) for b in (False, True) for p in (False, True)]


def bounds(tier):
    return {"modes": len(MODES), "kinds": len(KINDS), "sweep": "n = 0 .. limit/2 (step 1 quick up to 14 / 26 / 36)"}


def pyproject(m):
    return ("[tool.black]\nline-length = %d\nskip-magic-trailing-comma = %s\nskip-string-normalization = %s\npreview = %s\n"
            % (m["ll"], str(m["smtc"]).lower(), str(m["ssn"]).lower(), str(m["preview"]).lower()))


def mode_of(m):
    import black

    return black.Mode(line_length=m["ll"], magic_trailing_comma=not m["smtc"], string_normalization=not m["ssn"], preview=m["preview"])


KINDS = ("create-list", "grow-list", "shrink-list", "create-str", "fix-str-quotes", "nested", "magic-insert", "long-stmt", "trim-in", "create-dict", "fix-tuple")


def site(i, kind, n):
    L = list(range(n))
    if kind == "create-list":
        st = "assert list(range(%d)) == snapshot()" % n
    elif kind == "grow-list":
        st = "assert list(range(%d)) == snapshot([0])" % n
    elif kind == "shrink-list":
        st = "assert [0] == snapshot(%r)" % (L + [99],)
    elif kind == "create-str":
        st = "assert 'x' * %d == snapshot()" % n
    elif kind == "fix-str-quotes":
        st = "assert \"it's\" + 'y' * %d == snapshot('old')" % n
    elif kind == "nested":
        st = "assert {'k': list(range(%d)), 'j': ('a', %d)} == snapshot({'k': []})" % (n, n)
    elif kind == "magic-insert":
        st = "assert list(range(%d)) == snapshot(\n        [\n            0,\n            1,\n        ]\n    )" % n
    elif kind == "long-stmt":
        st = "assert compute_the_value_with_a_long_name(%d) == snapshot(), 'message text'" % n
    elif kind == "trim-in":
        st = "assert 0 in snapshot(%r)" % (L + [0],)
    elif kind == "create-dict":
        st = "assert {str(i): i for i in range(%d)} == snapshot()" % n
    elif kind == "fix-tuple":
        st = "assert tuple(range(%d)) == snapshot((0, 1, 2))" % n
    return "def test_%d():\n    %s\n" % (i, st)


def _cases(tier):
    cases = []
    for mi, m in enumerate(MODES):
        top = {30: 14, 60: 26, 88: 36}[m["ll"]]
        ns = range(0, top) if tier == "thorough" else range(0, top, 1 if m["ll"] == 30 else (2 if m["ll"] == 60 else 3))
        for kind in KINDS:
            for n in ns:
                if tier == "quick" and m["preview"] and kind not in ("create-list", "create-str", "magic-insert"):
                    continue
                cases.append({"m": mi, "k": kind, "n": n})
    return cases


def build(tier, seed):
    cs = _cases(tier)
    groups = {}
    for c in cs:
        groups.setdefault((c["m"], c["k"]), []).append(c)
    tasks = []
    for (mi, k), g in sorted(groups.items()):
        for i in range(0, len(g), BATCH):
            for twin in (False, "ugly", "leading-blank", "trailing-blank", "no-eof-newline"):
                if twin not in (False, "ugly") and (k not in ("create-list", "grow-list", "fix-str-quotes") or MODES[mi]["preview"]):
                    continue
                tasks.append({"cases": g[i : i + BATCH], "twin": twin})
    pc = _project_cases()
    tasks += [{"projects": pc[i : i + 2]} for i in range(0, len(pc), 2)]
    return tasks


HELP = "def compute_the_value_with_a_long_name(n):\n    return list(range(n))\n\n\n"


def _judge(cases, twin):
    import black
    from ..drivers.inline import run_inline
    from .c03 import check_file

    m = MODES[cases[0]["m"]]
    mode = mode_of(m)
    src = "from inline_snapshot import snapshot\n\n\n" + HELP + "\n\n".join(site(i, c["k"], c["n"]) for i, c in enumerate(cases))
    src = black.format_str(src, mode=mode)
    if twin:
        src = {"ugly": src + "\n\nUGLY = [1,2,  3]\n", "leading-blank": "\n\n" + src, "trailing-blank": src + "\n\n\n",
               "no-eof-newline": src.rstrip("\n")}[twin if isinstance(twin, str) else "ugly"]
        assert black.format_str(src, mode=mode) != src
    ctx = {"src": src}
    n = len(cases)
    flags = ["create", "fix", "trim"]
    r = run_inline({"test_something.py": src}, flags, pyproject=pyproject(m))
    if r["error"]:
        return [("internal-error", r["error"]["type"] + ": " + r["error"]["msg"][:300])] * n, ctx
    after = r["files"]["test_something.py"]
    ctx["after"] = after
    ctx["changed"] = after != src
    if twin:
        v = check_file(src, after, [], flags, False)
        if v:
            v = ("not-clean-file-layout-changed:" + v[0], v[1])
        return [v] * n, ctx
    try:
        f1 = black.format_str(after, mode=mode)
    except Exception as e:  # noqa
        return [("result-not-formattable", str(e)[:300])] * n, ctx
    if f1 != after:
        f2 = black.format_str(f1, mode=mode)
        if f2 != f1:
            ctx["unstable"] = True
            return [None] * n, ctx
        import difflib

        d = "\n".join(list(difflib.unified_diff(after.splitlines(), f1.splitlines(), "written", "black(written)", lineterm="", n=1))[:24])
        return [("clean-file-not-clean-afterwards", "mode %s\n%s" % (m, d))] * n, ctx
    return [None] * n, ctx


FMT_SCRIPT = ("import subprocess, sys\ntext = sys.stdin.read()\nif 'FORMATTER_FAILS_HERE' in text:\n    sys.stderr.write('cannot format this file')\n    sys.exit(123)\n"
              "r = subprocess.run([sys.executable, '-m', 'black', '-q', '-'], input=text.encode(), capture_output=True)\nsys.stdout.write(r.stdout.decode())\nsys.exit(r.returncode)\n")


def _project_cases():
    out = []
    for order in ("fail-first", "fail-last"):
        for n in (3, 30):
            out.append({"proj": "fmtcmd-one-file-fails", "order": order, "n": n})
    for n in (3, 30):
        for fc in ("root-has-format-command", "root-has-black-options"):
            out.append({"proj": "nested-project", "n": n, "root": fc})
    # a format-command given relative to the directory the session is started in, test files in sub-directories
    for n in (3, 30):
        for sub in ("tests", "tests/unit"):
            out.append({"proj": "fmtcmd-relative", "n": n, "sub": sub})
    # black itself raises for the text of one file (fault injected at black.format_str inside the session's own process)
    for order in ("fail-first", "fail-last", "fail-middle"):
        for n in (3, 30):
            out.append({"proj": "black-one-file-fails", "order": order, "n": n})
    # tests that run under another working directory (monkeypatch.chdir / os.chdir) next to clean files of the same directory
    for ll in (120, 60):
        for n in (20, 24, 30, 36):
            for order in ("chdir-first", "chdir-last", "chdir-same-file"):
                for how in ("monkeypatch", "os"):
                    out.append({"proj": "chdir", "ll": ll, "n": n, "order": order, "how": how})
    # the session is started in a directory outside the project, the tests are named by their absolute path
    for ll in (120, 60):
        for n in (20, 24, 30):
            for where in ("sibling", "parent"):
                out.append({"proj": "elsewhere", "ll": ll, "n": n, "cwd": where})
    # monorepo: black is configured in the repository root, a package in between has a metadata-only pyproject.toml
    for ll in (100, 60):
        for n in (24, 30, 36):
            for where in ("package", "root"):
                out.append({"proj": "monorepo", "ll": ll, "n": n, "cwd": where})
    return out


def _judge_project(c):
    """Real sessions with several files / nested configuration files."""
    import black
    import sys
    from ..drivers import plugin
    from .c03 import check_file

    mode = black.Mode()
    body = "from inline_snapshot import snapshot\n\n\ndef test_x():\n    assert list(range(%d)) == snapshot([0])\n    assert 'a' == snapshot()\n" % c["n"]
    clean = black.format_str(body, mode=mode)
    if c["proj"] == "fmtcmd-one-file-fails":
        bad = clean + "\n\nMARK = 'FORMATTER_FAILS_HERE'\n"
        names = ("test_a.py", "test_b.py") if c["order"] == "fail-first" else ("test_b.py", "test_a.py")
        files = {names[0]: bad, names[1]: clean, "fmt_cmd.py": FMT_SCRIPT,
                 "pyproject.toml": '[tool.inline-snapshot]\nformat-command="%s fmt_cmd.py {filename}"\n' % sys.executable}
        d = plugin.mk_project(files)
        try:
            r = plugin.session(d, ["--inline-snapshot=create,fix"])
            after = plugin.listing(d, text=True)
        finally:
            plugin.cleanup()
        if plugin.internal_error(r["out"]):
            return ("internal-error", r["out"][-600:])
        good = after[names[1]]
        if good == clean:
            return ("harness", "nothing changed")
        if black.format_str(good, mode=mode) != good:
            return ("clean-file-not-clean-afterwards", "the formatter failed for %s only, but %s is no longer formatted:\n%s" % (names[0], names[1], good[-400:]))
        if "Problems" not in r["out"]:
            return ("formatter-problem-not-reported", r["out"][-300:])
        return None
    if c["proj"] == "fmtcmd-relative":
        files = {c["sub"] + "/test_a.py": clean, "tools/fmt_cmd.py": FMT_SCRIPT, "pyproject.toml": '[tool.inline-snapshot]\nformat-command="%s tools/fmt_cmd.py {filename}"\n' % sys.executable}
        d = plugin.mk_project(files)
        try:
            r = plugin.session(d, ["--inline-snapshot=create,fix", c["sub"]])
            after = plugin.listing(d, text=True)[c["sub"] + "/test_a.py"]
        finally:
            plugin.cleanup()
        if plugin.internal_error(r["out"]):
            return ("internal-error", r["out"][-600:])
        if after == clean:
            return ("harness", "nothing changed")
        if black.format_str(after, mode=mode) != after:
            return ("clean-file-not-clean-afterwards", "format-command relative to the start directory, file in %s:\n%s\n%s" % (c["sub"], after[-400:], r["out"][-300:]))
        return None
    if c["proj"] == "black-one-file-fails":
        bad = clean + "\n\nMARK = 'poison_pill'\n"
        order = {"fail-first": ("test_a.py", "test_b.py", "test_c.py"), "fail-last": ("test_c.py", "test_a.py", "test_b.py"), "fail-middle": ("test_b.py", "test_a.py", "test_c.py")}[c["order"]]
        files = {order[0]: bad, order[1]: clean, order[2]: clean.replace("test_x", "test_y"), "pyproject.toml": ""}

        def pre():
            import black as _b

            real = _b.format_str

            def format_str(src, **kw):
                if "poison_pill" in src:
                    raise _b.InvalidInput("injected: black cannot format this text")
                return real(src, **kw)

            _b.format_str = format_str
            return None

        d = plugin.mk_project(files)
        try:
            r = plugin.session(d, ["--inline-snapshot=create,fix"], preexec=pre)
            after = plugin.listing(d, text=True)
        finally:
            plugin.cleanup()
        if plugin.internal_error(r["out"]):
            return ("internal-error", r["out"][-600:])
        for name in order[1:]:
            good = after[name]
            if good == files[name]:
                return ("harness", "nothing changed in %s" % name)
            if black.format_str(good, mode=mode) != good:
                return ("clean-file-not-clean-afterwards", "black failed for %s only, but %s is no longer formatted:\n%s" % (order[0], name, good[-400:]))
        return None
    if c["proj"] == "elsewhere":
        import os

        m2 = black.Mode(line_length=c["ll"])
        clean2 = black.format_str("from inline_snapshot import snapshot\n\n\ndef test_table():\n    assert list(range(%d)) == snapshot()\n    assert 'a' == snapshot('b')\n" % c["n"], mode=m2)
        root = plugin.mk_project({})
        proj = os.path.join(root, "proj")
        plugin.write_files(proj, {"pyproject.toml": "[tool.black]\nline-length = %d\n" % c["ll"], "tests/test_t.py": clean2})
        cwd = os.path.join(root, "elsewhere") if c["cwd"] == "sibling" else root
        os.makedirs(cwd, exist_ok=True)
        try:
            r = plugin.session(cwd, ["--inline-snapshot=create,fix", os.path.join(proj, "tests")])
            after = plugin.listing(proj, text=True)["tests/test_t.py"]
        finally:
            plugin.cleanup()
        if plugin.internal_error(r["out"]):
            return ("internal-error", r["out"][-600:])
        if after == clean2:
            return ("harness", "nothing changed: " + r["out"][-300:])
        if black.format_str(after, mode=m2) != after:
            return ("clean-file-not-clean-afterwards", "session started in %s, line-length %d:\n%s" % (c["cwd"], c["ll"], after[-500:]))
        return None
    if c["proj"] == "chdir":
        m2 = black.Mode(line_length=c["ll"])
        # (a created list is formatted as a whole: its layout depends on the line length; an inserted-into list is exploded anyway)
        b2 = "from inline_snapshot import snapshot\n\n\ndef test_table():\n    assert list(range(%d)) == snapshot()\n    assert 'a' == snapshot('b')\n" % c["n"]
        if c["how"] == "monkeypatch":
            t = "def test_cli(monkeypatch, tmp_path):\n    monkeypatch.chdir(tmp_path)\n    assert 'out' == snapshot()\n    assert [1, 2] == snapshot([1])\n"
        else:
            t = "import os\n\n\ndef test_cli(tmp_path):\n    old = os.getcwd()\n    os.chdir(tmp_path)\n    try:\n        assert 'out' == snapshot()\n        assert [1, 2] == snapshot([1])\n    finally:\n        os.chdir(old)\n"
        chd = "from inline_snapshot import snapshot\n\n\n" + t
        if c["how"] == "os":
            chd = "import os\n\nfrom inline_snapshot import snapshot\n\n\n" + t.replace("import os\n\n\n", "")
        clean2 = black.format_str(b2, mode=m2)
        chd = black.format_str(chd, mode=m2)
        if c["order"] == "chdir-same-file":
            files = {"tests/test_a.py": black.format_str(chd + "\n\n" + b2.split("\n\n\n", 1)[1], mode=m2)}
            watch = ["tests/test_a.py"]
        else:
            first, second = ("test_a_cli.py", "test_b_table.py") if c["order"] == "chdir-first" else ("test_z_cli.py", "test_b_table.py")
            files = {"tests/" + first: chd, "tests/" + second: clean2}
            watch = list(files)
        files["pyproject.toml"] = "[tool.black]\nline-length = %d\n" % c["ll"]
        d = plugin.mk_project(files)
        try:
            r = plugin.session(d, ["--inline-snapshot=create,fix", "tests"])
            after = plugin.listing(d, text=True)
        finally:
            plugin.cleanup()
        if plugin.internal_error(r["out"]):
            return ("internal-error", r["out"][-600:])
        for fn in watch:
            if after[fn] == files[fn]:
                return ("harness", "nothing changed in %s: %s" % (fn, r["out"][-300:]))
            if black.format_str(after[fn], mode=m2) != after[fn]:
                return ("clean-file-not-clean-afterwards", "line-length %d, %s:\n%s" % (c["ll"], fn, after[fn][-500:]))
        return None
    if c["proj"] == "monorepo":
        import os

        m2 = black.Mode(line_length=c["ll"])
        # (one list is created - formatted as a whole, so its layout depends on the line length - one is extended in place)
        b2 = ("from inline_snapshot import snapshot\n\n\ndef test_x():\n    assert list(range(%d)) == snapshot([0])\n    assert 'a' == snapshot()\n\n\n"
              "def test_y():\n    assert list(range(%d)) == snapshot()\n" % (c["n"], c["n"] - 4))
        clean2 = black.format_str(b2, mode=m2)
        root = plugin.mk_project({})
        repo = os.path.join(root, "repo")
        plugin.write_files(repo, {"pyproject.toml": "[tool.black]\nline-length = %d\n" % c["ll"], ".git/HEAD": "ref: refs/heads/main\n",
                                  "packages/foo/pyproject.toml": "[project]\nname = \"foo\"\nversion = \"1\"\n",
                                  "packages/foo/tests/test_foo.py": clean2})
        try:
            cwd = os.path.join(repo, "packages/foo") if c["cwd"] == "package" else repo
            r = plugin.session(cwd, ["--inline-snapshot=create,fix"] + (["tests"] if c["cwd"] == "package" else ["packages/foo/tests"]))
            after = plugin.listing(repo, text=True)["packages/foo/tests/test_foo.py"]
        finally:
            plugin.cleanup()
        if plugin.internal_error(r["out"]):
            return ("internal-error", r["out"][-600:])
        if after == clean2:
            return ("harness", "nothing changed")
        if black.format_str(after, mode=m2) != after:
            return ("clean-file-not-clean-afterwards", "black is configured with line-length %d in the repository root:\n%s" % (c["ll"], after[-500:]))
        return None
    # nested project: pytest is started in the outer directory, the rootdir (pkg/) has its own pyproject.toml
    ugly = body.replace("assert 'a' == snapshot()", "assert 'a'  ==  snapshot()")
    root_pp = ('[tool.inline-snapshot]\nformat-command="%s -m black -q -"\n' % sys.executable) if c["root"] == "root-has-format-command" else "[tool.black]\nline-length = 20\n"
    files = {"pyproject.toml": root_pp, "pkg/pyproject.toml": "[tool.pytest.ini_options]\naddopts = \"\"\n", "pkg/test_x.py": ugly}
    d = plugin.mk_project(files)
    try:
        r = plugin.session(d, ["pkg", "--inline-snapshot=create,fix"])
        after = plugin.listing(d, text=True)["pkg/test_x.py"]
    finally:
        plugin.cleanup()
    if plugin.internal_error(r["out"]):
        return ("internal-error", r["out"][-600:])
    if "rootdir" in r["out"] and "/pkg" not in r["out"].split("rootdir")[1].split("\n")[0]:
        return ("harness", "rootdir is not pkg: " + r["out"][:300])
    if c["root"] == "root-has-format-command":
        v = check_file(ugly, after, [], ["create", "fix"], False)
        if v:
            return ("not-clean-file-layout-changed:" + v[0], v[1])
    return None


def run_case(case):
    if "proj" in case:
        v = _judge_project(case)
        return [{"case": case, "what": v[0], "detail": v[1]}] if v else []
    twin = case.get("twin", False)
    v, ctx = _judge([case], twin)
    if v[0] is None:
        return []
    return [{"case": case, "what": v[0][0], "detail": v[0][1] + "\n--- before ---\n" + ctx["src"][-700:] + "\n--- after ---\n" + ctx.get("after", "")[-700:]}]


def run_task(task):
    out = {"n": 0, "nontrivial": [], "outcomes": {}, "violations": [], "samples": [], "extra": {}}
    if "projects" in task:
        for c in task["projects"]:
            out["n"] += 1
            vs = run_case(c)
            out["violations"] += vs
            lab = "viol:" + vs[0]["what"].split(":")[0] if vs else "ok:project:" + c["proj"]
            if not vs:
                out["nontrivial"].append(repr(sorted(c.items())))
            out["outcomes"][lab] = out["outcomes"].get(lab, 0) + 1
        out["samples"].append({"project_case": task["projects"][0]})
        return out
    twin = task["twin"]
    v, ctx = _judge(task["cases"], twin)
    for c in task["cases"]:
        c = dict(c, twin=twin)
        out["n"] += 1
        if v[0] is not None:
            single = run_case(c)
            if single:
                out["violations"] += single
                lab = "viol:" + single[0]["what"].split(":")[0]
                out["outcomes"][lab] = out["outcomes"].get(lab, 0) + 1
                continue
        if ctx.get("changed"):
            out["nontrivial"].append(repr(sorted(c.items())))
        lab = "ok:" + (("twin-" + str(twin)) if twin else "clean") + (":unstable-formatter" if ctx.get("unstable") else "")
        out["outcomes"][lab] = out["outcomes"].get(lab, 0) + 1
    if ctx.get("unstable"):
        out["extra"]["formatter_instability_files"] = 1
    out["samples"].append({"mode": MODES[task["cases"][0]["m"]], "kind": task["cases"][0]["k"], "n": task["cases"][0]["n"], "not_clean_twin": twin})
    return out
