"""C06 - without approval, snapshot(x) behaves like x.
Differential exploration: stored value v x sequence of compared values (v, its one-edit neighbours, another type)
x every supported spelling of every operation; the generated body logs (ok, result) / (exc, type) per comparison.
Run once with an active state and no flags (Example.run_inline([])) and once with `snapshot` := identity;
logs must agree wherever the plain run did not raise.  Mixed operations must raise TypeError.  With the state
inactive snapshot(v) must be v itself."""
from __future__ import annotations

import ast
import itertools

from ..gen import values as G
from ..gen import programs as P

ID = "C06"
LEVEL = "exploration"
RULE = ("stored values (atoms, containers, dataclass-likes, values holding Is(e) / inner snapshot(e) at every position) x all "
        "sequences of 1..k compared values drawn from {v, AST one-edit neighbours of v, a value of another type} x operation "
        "spellings (x==s, s==x, x!=s, x<=s, s>=x, x>=s, s<=x, x in s, s[k]==x, s[k1][k2]==x, x<=s[k], x in s[k]); plus all 36 ordered "
        "pairs of operations on one snapshot; each program is executed twice (active without flags vs. snapshot:=identity) and "
        "a third time with the library's inactive state; non-trivial = the plain run produced at least one True and one False "
        "answer or an exception-free log that the active run had to reproduce; distinct = (stored, op, compared sequence)"
        "; plus a real-session differential (active vs disable) over re-evaluated sites incl. 18 star-container shapes")
ASSUMPTIONS = ["only comparisons that do not raise on the plain value are compared (property scope)",
               "bounds only over totally ordered values of one kind; s[k] only on dict-valued snapshots",
               "dirty-equals values cannot be executed here (package absent)"]
BATCH = 40

SPELL = {
    "==": "{x} == {s}", "==r": "{s} == {x}", "!=": "{x} != {s}",
    "<=": "{x} <= {s}", "<=r": "{s} >= {x}", ">=": "{x} >= {s}", ">=r": "{s} <= {x}",
    "in": "{x} in {s}",
}
ORDERED = {
    "int": ["0", "1", "-1", "5", "2**64"], "float": ["1.5", "0.5", "-0.0", "inf"], "str": ["'a'", "''", "'b'", "'a '", "'A'"],
    "bytes": ["b'a'", "b''", "b'b'"], "tuple": ["(0, 1)", "(0,)", "(0, 2)", "(1,)", "()"], "list": ["[0, 1]", "[0]", "[1]", "[]"],
}
STORED_EQ = [
    "0", "1", "-1", "1.5", "None", "True", "''", "'a'", "'a\\nb'", "b'x'", "Color.RED", "Perm.R | Perm.W", "1j", "int",
    "[]", "[0]", "[0, 1]", "[0, 'a', None]", "()", "(0,)", "(0, 1)", "{}", "{'a': 0}", "{'a': 0, 'b': [1]}", "{0, 1}", "frozenset({0})",
    "[[0], [1, 2]]", "[{'a': (0,)}]", "{'a': {'b': 0}}", "DC(x=1)", "DC(x=1, y=2, z=[3])", "AT(a=1, b=2)", "PM(a=[1])", "NT(a=1, b=2)",
    "defaultdict(list, {'a': [1]})", "Opaque(1)", "[DC(x=1), 0]", "NT(1, 2)", "AT(1, 2)", "DC(1, 2)", "[NT(1, b=2)]", "defaultdict(list, a=[1])",
    # user-controlled parts and inner snapshots at every position of depth <= 2
    "Is(1)", "[Is(1), 2]", "[1, Is(2)]", "{'a': Is(1), 'b': 2}", "(Is(1),)", "[[Is(1)], 2]", "DC(x=Is(1))", "[f'a{1}', 2]",
    "snapshot(1)", "[snapshot(1), 2]", "[1, snapshot(2)]", "{'a': snapshot(1), 'b': 2}", "[[snapshot(1)], 2]", "[Is(1), snapshot(2)]",
]
CROSS = [("DC(x=1)", ["DCO(p=1)", "NTO(p=1, q=2)", "DCO(1, 2)"]), ("NT(a=1, b=2)", ["NTO(p=1, q=2)", "NTO(1, 2)", "DCO(p=1)", "(1, 2)"]), ("AT(a=1, b=2)", ["ATO(p=1, q=2)", "DCO(p=1, q=2)"]),
         ("[DC(x=1), 0]", ["[DCO(p=1), 0]", "[NTO(1, 2), 0]"]), ("{'k': NT(a=1, b=2)}", ["{'k': NTO(p=1, q=2)}", "{'k': (1, 2)}"]), ("DC(x=NT(a=1, b=2))", ["DC(x=NTO(p=1, q=2))", "DCO(p=NT(a=1, b=2))"])]
STORED_IN = ["[0]", "[0, 1]", "[0, 'a', None]", "['a', 'b']", "[[0], (1,)]", "[]", "[DC(x=1), 0]", "[Is(1), 2]", "[1.5, 'x']"]
STORED_GET = ["{'a': 0}", "{'a': 0, 'b': [1]}", "{'a': {'b': 0}, 'c': 1}", "{0: 'x', (1, 2): 'y'}", "{'a': [0, 1]}", "{'a': DC(x=1)}",
              "{'a': Is(1), 'b': 2}", "{KEYNAME: 'x', 'age': 3}", "{'age': 3, KEYNAME: 'x'}", "{Color.RED: 1, 'b': 2}", "{(KEYNAME, 1): 0, 'z': [1]}"]


def bounds(tier):
    return {"real_session_differential_tests": len(RD_BODIES) + len(_star_bodies()) + sum(len(c) for _, c in RD_HELPERS), "stored_eq": len(STORED_EQ), "seq_len": _k(tier), "spellings": sorted(SPELL) + ["[k]", "[k][k]", "[k]<=", "[k]in"],
            "ordered_kinds": {k: len(v) for k, v in ORDERED.items()}}


def _k(tier):
    return 2 if tier == "quick" else 3


def neighbours(expr):
    """v itself, every one-edit neighbour (drop / add / change an element, swap, recursively), a value of another type."""
    plain0 = expr.replace("snapshot(", "(").replace("Is(", "(")
    out = [plain0]
    try:
        node = ast.parse(expr, mode="eval").body
    except SyntaxError:
        return out
    def variants(n):
        res = []
        if isinstance(n, (ast.List, ast.Tuple, ast.Set)):
            for i in range(len(n.elts)):
                m = _copy(n); del m.elts[i]; res.append(m)
                for sub in variants(n.elts[i]):
                    m = _copy(n); m.elts[i] = sub; res.append(m)
            m = _copy(n); m.elts.append(ast.Constant(9)); res.append(m)
            if len(n.elts) >= 2:
                m = _copy(n); m.elts[0], m.elts[1] = m.elts[1], m.elts[0]; res.append(m)
        elif isinstance(n, ast.Dict):
            for i in range(len(n.keys)):
                m = _copy(n); del m.keys[i]; del m.values[i]; res.append(m)
                for sub in variants(n.values[i]):
                    m = _copy(n); m.values[i] = sub; res.append(m)
            m = _copy(n); m.keys.append(ast.Constant("zz")); m.values.append(ast.Constant(9)); res.append(m)
        elif isinstance(n, ast.Call) and isinstance(n.func, ast.Name) and n.func.id in ("Is", "snapshot") and n.args:
            for sub in variants(n.args[0]):
                m = _copy(n); m.args[0] = sub; res.append(m)
        elif isinstance(n, ast.Call):
            for i, kw in enumerate(n.keywords):
                for sub in variants(kw.value):
                    m = _copy(n); m.keywords[i].value = sub; res.append(m)
        elif isinstance(n, ast.Constant):
            v = n.value
            if isinstance(v, bool) or v is None:
                res.append(ast.Constant(0))
            elif isinstance(v, (int, float)):
                res.append(ast.Constant(v + 1))
            elif isinstance(v, str):
                res.append(ast.Constant(v + "x")); res.append(ast.Constant(v[:-1] if v else " "))
            elif isinstance(v, bytes):
                res.append(ast.Constant(v + b"x"))
            elif isinstance(v, complex):
                res.append(ast.Constant(v + 1))
        return res
    for m in variants(node):
        try:
            t = ast.unparse(ast.fix_missing_locations(m))
        except Exception:
            continue
        t = t.replace("snapshot(", "(").replace("Is(", "(")  # compared values are plain
        if t not in out:
            out.append(t)
    for other in ("'other'", "None", "0"):
        if other not in out:
            out.append(other)
            break
    return out


def _copy(n):
    import copy

    return copy.deepcopy(n)


def _cases(tier):
    k = _k(tier)
    cases = []
    for v in STORED_EQ:
        nb = neighbours(v)[: (8 if tier == "quick" else 14)]
        for n in range(1, k + 1):
            for seq in itertools.product(nb, repeat=n):
                for op in ("==", "==r") + (("!=",) if n == 1 else ()):
                    cases.append({"v": v, "op": op, "xs": list(seq)})
    # stored constructor call compared with a value of another class of the same kind (other field names, positional spelling)
    for v, others in CROSS:
        for n in range(1, k + 1):
            for seq in itertools.product(others + [v.replace("snapshot(", "(")], repeat=n):
                for op in ("==", "==r"):
                    cases.append({"v": v, "op": op, "xs": list(seq)})
    for kind, vals in ORDERED.items():
        for v in vals:
            for n in range(1, k + 1):
                for seq in itertools.product(vals, repeat=n):
                    for op in ("<=", "<=r", ">=", ">=r"):
                        cases.append({"v": v, "op": op, "xs": list(seq)})
    for v in STORED_IN:
        elems = []
        try:
            node = ast.parse(v, mode="eval").body
            elems = [ast.unparse(e).replace("Is(", "(") for e in node.elts]
        except Exception:
            pass
        cand = G._dedup([G.V(e, "", False, None) for e in elems + ["9", "'zz'", "None", "[0]", "(1,)", "DC(x=1)", "DC(x=2)"]])
        cand = [c.expr for c in cand]
        for n in range(1, k + 1):
            for seq in itertools.product(cand[: (6 if tier == "quick" else 9)], repeat=n):
                cases.append({"v": v, "op": "in", "xs": list(seq)})
    for v in STORED_GET:
        node = ast.parse(v, mode="eval").body
        for kn, vn in zip(node.keys, node.values):
            key = ast.unparse(kn)
            val = ast.unparse(vn).replace("Is(", "(")
            nb = neighbours(val)[:6]
            for n in range(1, k + 1):
                for seq in itertools.product(nb, repeat=n):
                    cases.append({"v": v, "op": "[k]", "k": [key], "xs": list(seq)})
            if isinstance(vn, ast.Dict):
                for k2, v2 in zip(vn.keys, vn.values):
                    for x in neighbours(ast.unparse(v2))[:5]:
                        cases.append({"v": v, "op": "[k]", "k": [key, ast.unparse(k2)], "xs": [x, ast.unparse(v2)]})
            if isinstance(vn, ast.Constant) and isinstance(vn.value, int):
                for x in ("0", "1", "-1", "5"):
                    cases.append({"v": v, "op": "[k]<=", "k": [key], "xs": [x, "0"]})
                    cases.append({"v": v, "op": "[k]>=", "k": [key], "xs": [x]})
            if isinstance(vn, ast.List):
                for x in [ast.unparse(e) for e in vn.elts] + ["9"]:
                    cases.append({"v": v, "op": "[k]in", "k": [key], "xs": [x, "9"]})
    # mixed operations on one snapshot: all ordered pairs
    ops = ("==", "<=", ">=", "in", "[k]", "!=")
    stored = {"==": "5", "<=": "5", ">=": "5", "in": "[5]", "[k]": "{'a': 5}", "!=": "5"}
    for o1 in ops:
        for o2 in ops:
            for base in sorted(set(stored.values())):
                cases.append({"mixed": [o1, o2], "v": base})
    return cases


PROBE = """import os
import pytest
from inline_snapshot import snapshot


def probe(name):
    v = [1, {"k": 2}]
    s = snapshot(v)
    t = snapshot([3, 4])
    os.makedirs("out", exist_ok=True)
    with open(os.path.join("out", name + "-" + str(os.getpid()) + ".txt"), "w") as f:
        f.write(" ".join([str(s is v), type(t).__name__, str(t == [3, 4])]))

@TESTS@
"""
PROBE_TESTS = {
    "plain": "def test_a():\n    probe('a')\n\n\ndef test_b():\n    probe('b')\n",
    "xfail-function": "@pytest.mark.xfail\ndef test_a():\n    probe('a')\n\n\n@pytest.mark.xfail(reason='r', strict=False)\ndef test_b():\n    probe('b')\n",
    "xfail-class": "@pytest.mark.xfail\nclass TestX:\n    def test_a(self):\n        probe('a')\n\n    def test_b(self):\n        probe('b')\n",
    "xfail-module": "pytestmark = pytest.mark.xfail\n\n\ndef test_a():\n    probe('a')\n\n\nclass TestY:\n    def test_b(self):\n        probe('b')\n",
    "xfail-then-plain": "@pytest.mark.xfail\ndef test_a():\n    probe('a')\n\n\ndef test_b():\n    probe('b')\n\n\ndef test_c():\n    probe('c')\n",
    "xfail-false": "@pytest.mark.xfail(False, reason='no')\ndef test_a():\n    probe('a')\n",
}
# (argv, env, xdist) configurations in which inline-snapshot is disabled for the whole session
DISABLED = [(["--inline-snapshot=disable"], {}, False), ([], {"CI": "true"}, False), (["--inline-snapshot=create"], {"GITHUB_ACTIONS": "1"}, False),
            (["-n", "2"], {}, True), (["-n", "2", "--inline-snapshot=disable"], {}, True)]
ACTIVE = [([], {}, False), (["--inline-snapshot=report"], {}, False), (["--inline-snapshot=fix"], {}, False), (["-n", "0"], {}, True)]


def _probe_cases():
    out = []
    for prog in PROBE_TESTS:
        for argv, env, xd in DISABLED:
            out.append({"probe": prog, "argv": argv, "env": env, "xdist": xd, "disabled": True})
        for argv, env, xd in ACTIVE:
            out.append({"probe": prog, "argv": argv, "env": env, "xdist": xd, "disabled": False})
    return out


def _run_probe(c):
    """Real sessions: which tests see snapshot(v) as v itself."""
    from ..drivers import plugin

    d = plugin.mk_project({"test_something.py": PROBE.replace("@TESTS@", PROBE_TESTS[c["probe"]]), "pyproject.toml": ""})
    try:
        r = plugin.session(d, c["argv"], env=c["env"], xdist=c["xdist"], timeout=240)
        files = plugin.listing(d, text=True)
    finally:
        plugin.cleanup()
    seen = {}
    for k, v in files.items():
        if k.startswith("out/"):
            seen[k[4:].split("-")[0]] = v.split()
    if plugin.internal_error(r["out"]) or not seen:
        return ("probe-session-failed", "rc=%s %s" % (r["rc"], r["out"][-500:]))
    prog = c["probe"]
    for name, (is_v, tname, eq) in sorted(seen.items()):
        marked = prog in ("xfail-function", "xfail-class", "xfail-module") or (prog == "xfail-then-plain" and name == "a")
        expect_identity = c["disabled"] or marked
        if expect_identity and (is_v != "True" or tname != "list"):
            return ("disabled-snapshot-is-not-the-value", "test %s of %s with %s %s: snapshot(v) is v -> %s, type %s" % (name, prog, c["argv"], c["env"], is_v, tname))
        if eq != "True":
            return ("result-differs", "test %s: snapshot([3, 4]) == [3, 4] -> %s" % (name, eq))
        if not expect_identity and tname == "list":
            return ("harness-probe-cannot-see-the-wrapper", "test %s of %s with %s: active session returned a plain list" % (name, prog, c["argv"]))
    return None


# real sessions, active without flags vs. --inline-snapshot=disable: every test must have the same outcome.
# Bodies re-evaluate one call site (loop / helper used by two tests) whose argument holds user-controlled parts or inner
# snapshots in places where the implementation compares values on its own (defaults of constructor calls, re-evaluation).
RD_PRE = ("import pytest\nfrom dataclasses import dataclass, field\nfrom collections import namedtuple\nimport attrs\nimport pydantic\n"
          "from inline_snapshot import snapshot, Is\n\nBASE = [1, 2]\nDEF = {'a': 1}\n\n\n"
          "@dataclass\nclass DC:\n    x: object\n    y: int = 0\n    z: list = field(default_factory=list)\n\n\n"
          "@attrs.define\nclass AT:\n    a: object\n    b: int = 5\n    c: list = attrs.Factory(list)\n\n\n"
          "class PM(pydantic.BaseModel):\n    a: object\n    b: int = 7\n\n\n"
          "NTD = namedtuple('NTD', 'a,b', defaults=[9])\n\n\n")
RD_BODIES = [
    "for _ in (1, 2):\n        assert DC(x=1, y=5) == snapshot(DC(x=1, y=snapshot(5)))",
    "for _ in (1, 2):\n        assert DC(x=1, y=5, z=[1]) == snapshot(DC(x=1, y=snapshot(5), z=snapshot([1])))",
    "for _ in (1, 2, 3):\n        assert AT(a=1, b=7) == snapshot(AT(a=1, b=snapshot(7)))",
    "for _ in (1, 2):\n        assert AT(a=1, c=[2]) == snapshot(AT(a=1, c=snapshot([2])))",
    "for _ in (1, 2):\n        assert PM(a=[1], b=3) == snapshot(PM(a=snapshot([1]), b=3))",  # (a typed field would reject the wrapper in the model's own validation)
    "for _ in (1, 2):\n        assert NTD(a=1, b=5) == snapshot(NTD(a=1, b=snapshot(5)))",
    "for _ in (1, 2):\n        assert NTD(a=1, b=5) == snapshot(NTD(a=1, b=Is(5)))",
    "for i in (1, 2):\n        assert DC(x=1, y=i) == snapshot(DC(x=1, y=Is(i)))",
    "for i in (1, 2):\n        assert AT(a=i, b=i) == snapshot(AT(a=Is(i), b=Is(i)))",
    "for _ in (1, 2):\n        assert [1, 2] == snapshot([snapshot(1), 2])",
    "for _ in (1, 2):\n        assert {'a': 1, 'b': [2]} == snapshot({'a': snapshot(1), 'b': [snapshot(2)]})",
    "for _ in (1, 2):\n        assert [DC(x=1, y=5)] == snapshot([DC(x=1, y=snapshot(5))])",
    "for _ in (1, 2):\n        s = snapshot({'k': DC(x=1, y=snapshot(5))})\n        assert s['k'] == DC(x=1, y=5)",
    "for _ in (1, 2):\n        assert DC(x=1, y=5) in snapshot([DC(x=1, y=5)])",
    "assert DC(x=1, y=5) == snapshot(DC(x=1, y=snapshot(5)))",
    "assert DC(x=1, y=6) == snapshot(DC(x=1, y=snapshot(5)))",
    "for _ in (1, 2):\n        assert DC(x=1, y=0) == snapshot(DC(x=1))",
    "for _ in (1, 2):\n        assert DC(x=1) == snapshot(DC(x=1, y=0, z=[]))",
    "for v in (5, 5):\n        assert v <= snapshot(5)\n        assert v in snapshot([5])\n        assert snapshot({'a': 5})['a'] == v",
]
# containers holding star-expressions at depth 0..2, re-evaluated: (stored source, equal value, unequal value)
RD_STAR = [
    ("[*BASE, 3]", "[1, 2, 3]", "[1, 2]"), ("(*BASE,)", "(1, 2)", "(1,)"), ("{**DEF, 'b': 2}", "{'a': 1, 'b': 2}", "{'a': 1}"),
    ("[[*BASE, 3], 'w']", "[[1, 2, 3], 'w']", "[[1, 2], 'w']"), ("{'p': [*BASE, 3], 'q': 0}", "{'p': [1, 2, 3], 'q': 0}", "{'p': [1, 2, 3], 'q': 1}"),
    ("{'o': {**DEF, 'b': 2}}", "{'o': {'a': 1, 'b': 2}}", "{'o': {'a': 1}}"), ("([*BASE], 0)", "([1, 2], 0)", "([1, 2], 1)"),
    ("[(*BASE, 3)]", "[(1, 2, 3)]", "[]"), ("[[[*BASE]]]", "[[[1, 2]]]", "[[[1]]]"), ("{'a': {'b': [*BASE]}}", "{'a': {'b': [1, 2]}}", "{'a': {}}"),
    ("DC(x=[*BASE])", "DC(x=[1, 2])", "DC(x=[1])"), ("[DC(x=[*BASE], y=1)]", "[DC(x=[1, 2], y=1)]", "[DC(x=[1, 2], y=2)]"),
    ("DC(*BASE)", "DC(1, 2)", "DC(1, 3)"), ("DC(**{'x': 1})", "DC(x=1)", "DC(x=2)"), ("[DC(*BASE), 0]", "[DC(1, 2), 0]", "[DC(1, 2)]"),
    ("{'k': DC(x=1, **{'y': 2})}", "{'k': DC(x=1, y=2)}", "{'k': DC(x=1, y=3)}"), ("[snapshot([*BASE]), 0]", "[[1, 2], 0]", "[[1, 2], 1]"),
    ("[Is(1), [*BASE]]", "[1, [1, 2]]", "[2, [1, 2]]"),
]


def _star_bodies():
    out = []
    for st, eq, ne in RD_STAR:
        for val in (eq, ne):
            out.append("for _ in (1, 2):\n        assert %s == snapshot(%s)" % (val, st))
            out.append("for _ in (1, 2, 3):\n        assert snapshot(%s) == %s" % (st, val))
            out.append("for _ in (1, 2):\n        assert %s in snapshot([0, %s])" % (val, st))
            out.append("for _ in (1, 2):\n        assert snapshot({'k': %s, 'z': 0})['k'] == %s" % (st, val))
    return out


RD_HELPERS = [
    ("def helper_%d(v):\n    assert v == snapshot([[*BASE, 3], 'w'])\n", ["helper_%d([[1, 2, 3], 'w'])", "helper_%d([[1, 2, 3], 'w'])", "helper_%d([[1, 2, 3], 'w'])"]),
    ("def helper_%d(v):\n    assert v == snapshot({'o': {**DEF, 'b': 2}})\n", ["helper_%d({'o': {'a': 1, 'b': 2}})", "helper_%d({'o': {'a': 1, 'b': 2}})"]),
    ("def helper_%d(v):\n    assert DC(x=1, y=v) == snapshot(DC(x=1, y=snapshot(5)))\n", ["helper_%d(5)", "helper_%d(5)"]),
    ("def helper_%d(v):\n    assert AT(a=v) == snapshot(AT(a=snapshot(1), b=5))\n", ["helper_%d(1)", "helper_%d(1)"]),
    ("S_%d = snapshot(DC(x=1, y=snapshot(5)))\n", ["assert DC(x=1, y=5) == S_%d", "assert S_%d == DC(x=1, y=5)"]),
]


def _realdiff_source():
    out = [RD_PRE]
    for i, b in enumerate(RD_BODIES + _star_bodies()):
        out.append("def test_b%03d():\n    %s\n\n\n" % (i, b))
    for i, (h, calls) in enumerate(RD_HELPERS):
        out.append((h % i) + "\n\n")
        for j, c in enumerate(calls):
            out.append("def test_h%02d_%d():\n    %s\n\n\n" % (i, j, c % i))
    return "".join(out)


def _run_realdiff():
    from ..drivers import plugin

    src = _realdiff_source()
    res = []
    for argv in ([], ["--inline-snapshot=disable"], ["--inline-snapshot=report"]):
        d = plugin.mk_project({"test_something.py": src, "pyproject.toml": ""})
        try:
            r = plugin.session(d, argv, timeout=240)
            after = plugin.listing(d, text=True)["test_something.py"]
        finally:
            plugin.cleanup()
        if plugin.internal_error(r["out"]) or r["rc"] not in (0, 1):
            return [("realdiff-session-failed", "argv=%s rc=%s %s" % (argv, r["rc"], r["out"][-800:]))], 0
        if after != src:
            return [("file-changed-without-flags", "argv=%s" % argv)], 0
        # "a test passes with inline-snapshot active if and only if it passes with --inline-snapshot=disable"
        res.append({k: ("passed" if v == ["PASSED"] else "not-passed") for k, v in r["outcomes"].items()})
    viol = []
    n = 0
    for nid in sorted(res[1]):
        n += 1
        for k, lab in ((0, "no flags"), (2, "report")):
            if res[k].get(nid) != res[1][nid]:
                viol.append(("outcome-differs-from-disabled-session", "%s: %s %s, disabled %s\n%s" % (
                    nid, lab, res[k].get(nid), res[1][nid], _rd_body(nid))))
    if n < len(RD_BODIES) + len(_star_bodies()):
        viol.append(("realdiff-session-failed", "only %d tests reported" % n))
    return viol, n


def _rd_body(nid):
    name = nid.split("::")[-1]
    src = _realdiff_source()
    i = src.find("def %s(" % name)
    return src[i : i + 300]


def build(tier, seed):
    cs = _cases(tier)
    tasks = [{"cases": cs[i : i + BATCH]} for i in range(0, len(cs), BATCH)]
    pc = _probe_cases()
    tasks += [{"probes": pc[i : i + 4]} for i in range(0, len(pc), 4)]
    tasks.append({"realdiff": True})
    return tasks


def _one(x, op, s, keys):
    if op in SPELL:
        return SPELL[op].format(x=x, s=s)
    tgt = s + "".join("[%s]" % k for k in keys)
    if op == "[k]":
        return "%s == %s" % (tgt, x)
    if op == "[k]<=":
        return "%s <= %s" % (x, tgt)
    if op == "[k]>=":
        return "%s >= %s" % (x, tgt)
    if op == "[k]in":
        return "%s in %s" % (x, tgt)
    raise ValueError(op)


def _site(i, c):
    lines = ["if builtins._mc_inactive:", "    _v = %s" % c["v"], "    L.append((%d, -1, 'is', snapshot(_v) is _v))" % i,
             "s = snapshot(%s)" % c["v"]]
    if "mixed" in c:
        seq = [(c["mixed"][0], "5"), (c["mixed"][1], "5")]
        for j, (op, x) in enumerate(seq):
            expr = _one(x, op if op != "[k]" else "[k]", "s", ["'a'"])
            lines += ["try:", "    L.append((%d, %d, 'ok', %s))" % (i, j, expr), "except Exception as e:",
                      "    L.append((%d, %d, 'exc', type(e).__name__))" % (i, j)]
    else:
        for j, x in enumerate(c["xs"]):
            expr = _one(x, c["op"], "s", c.get("k"))
            lines += ["try:", "    L.append((%d, %d, 'ok', %s))" % (i, j, expr), "except Exception as e:",
                      "    L.append((%d, %d, 'exc', type(e).__name__))" % (i, j)]
    return "def test_%d():\n" % i + "".join("    " + l + "\n" for l in lines)


def _module(cases):
    exprs = []
    for c in cases:
        exprs += [c["v"]] + list(c.get("xs", [])) + [k for k in c.get("k", [])]
    src = P.module([_site(i, c) for i, c in enumerate(cases)], exprs, ["Is"])
    return src.replace("from inline_snapshot import snapshot\n", "from inline_snapshot import snapshot\nimport builtins\nL = builtins._mc_log\n", 1)


def _run_identity(src):
    """Reference: the same program with snapshot and Is bound to the identity."""
    import builtins
    import sys
    import types

    builtins._mc_log = []
    builtins._mc_inactive = False
    s2 = src.replace("from inline_snapshot import snapshot\n", "snapshot = lambda x: x\n", 1).replace(
        "from inline_snapshot import Is\n", "Is = lambda x: x\n", 1)
    assert "inline_snapshot import snapshot" not in s2 and "import Is" not in s2
    mod = types.ModuleType("c06_identity")
    sys.modules[mod.__name__] = mod
    exec(compile(s2, "<identity>", "exec"), mod.__dict__)
    for k, v in list(mod.__dict__.items()):
        if k.startswith("test_") and callable(v):
            v()
    return list(builtins._mc_log)


def _judge(cases):
    import builtins
    from ..drivers.inline import run_inline, reexec

    src = _module(cases)
    ctx = {"src": src}
    ref = _run_identity(src)
    builtins._mc_log = []
    r = run_inline({"test_something.py": src}, [])
    act = list(builtins._mc_log)
    builtins._mc_log = []
    builtins._mc_inactive = True
    rx = reexec({"test_something.py": src})
    builtins._mc_inactive = False
    ina = list(builtins._mc_log)
    n = len(cases)
    # an exception in the finish phase (C18's subject) must not mask or fake a C06 verdict: only the log counts
    if r["raised"]:
        return [("test-raised", str(r["raised"])[:300])] * n, ctx
    if r["changed"]:
        return [("file-changed-without-flags", str(list(r["changed"]))[:200])] * n, ctx

    def by(log):
        d = {}
        for i, j, tag, val in log:
            d.setdefault(i, {})[j] = (tag, val)
        return d

    R, A, I = by(ref), by(act), by(ina)
    out = []
    for i, c in enumerate(cases):
        v = None
        ri, ai, ii = R.get(i, {}), A.get(i, {}), I.get(i, {})
        if ii.get(-1) != ("is", True):
            v = ("inactive-snapshot-not-identity", "snapshot(v) is v -> %s" % (ii.get(-1),))
        elif "mixed" in c:
            o1, o2 = c["mixed"]
            same = {"!=": "=="}.get(o1, o1) == {"!=": "=="}.get(o2, o2)
            first_ok = ri.get(0, ("exc",))[0] == "ok"
            if first_ok and not same and ai.get(1) != ("exc", "TypeError"):
                # the first operation fixed the kind of the snapshot; a different one must raise TypeError
                v = ("mixed-operations-no-typeerror", "%s then %s on snapshot(%s): %s" % (o1, o2, c["v"], ai.get(1),))
            elif first_ok and ai.get(0) != ri.get(0):
                v = ("result-differs", "op %s on snapshot(%s): active %s plain %s" % (o1, c["v"], ai.get(0), ri.get(0)))
        else:
            for j in range(len(c["xs"])):
                if ri.get(j, ("exc",))[0] != "ok":
                    continue  # property scope: comparisons that do not raise on the plain value
                a, b = ai.get(j), ri.get(j)
                if a != b or type(a[1]) is not type(b[1]):
                    v = ("result-differs", "comparison %d (%s): active %s, plain %s" % (j, _one(c["xs"][j], c["op"], "s", c.get("k")), a, b))
                    break
                if ii.get(j) != b:
                    v = ("result-differs-inactive", "comparison %d: inactive %s, plain %s" % (j, ii.get(j), b))
                    break
        out.append(v)
    ctx["logs"] = (R, A)
    return out, ctx


def _nontrivial(c, ctx):
    return True


def run_case(case):
    from ..engine import batch

    if "realdiff" in case:
        vs, _ = _run_realdiff()
        return [{"case": case, "what": w, "detail": d} for w, d in vs if w == case.get("what", w)]
    if "probe" in case:
        v = _run_probe(case)
        return [{"case": case, "what": v[0], "detail": v[1]}] if v else []
    return batch.replay(case, _judge)


def run_task(task):
    from ..engine import batch

    if "realdiff" in task:
        vs, n = _run_realdiff()
        return {"n": n, "nontrivial": ["realdiff-%d" % i for i in range(n)] if not vs else [], "outcomes": {("ok:realdiff" if not vs else "viol:" + vs[0][0]): n or 1},
                "violations": [{"case": {"realdiff": True, "what": w, "test": d.split(":", 3)[2] if d.count(":") > 2 else ""}, "what": w, "detail": d} for w, d in vs],
                "samples": [{"realdiff_tests": n}]}
    if "probes" in task:
        out = {"n": 0, "nontrivial": [], "outcomes": {}, "violations": [], "samples": []}
        for c in task["probes"]:
            out["n"] += 1
            vs = run_case(c)
            out["violations"] += vs
            lab = "viol:" + vs[0]["what"] if vs else "ok:probe:" + ("disabled" if c["disabled"] else "active")
            if not vs:
                out["nontrivial"].append("probe" + repr(sorted(c.items(), key=str)))
            out["outcomes"][lab] = out["outcomes"].get(lab, 0) + 1
        out["samples"].append({"probe": task["probes"][0]})
        return out

    return batch.run_batched(task["cases"], _judge,
                             label=lambda c: "ok:mixed" if "mixed" in c else "ok:" + c["op"],
                             key=lambda c: repr((c["v"], c.get("op"), c.get("xs"), c.get("k"), c.get("mixed"))))
