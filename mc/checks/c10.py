"""C10 - parts the user controls are never rewritten.
Containers mixing managed and unmanaged slots (Is(..) equal / unequal, f-strings equal / unequal, inner snapshot()
ok / wrong / empty) at every position, x observed values of the same length, one longer (every position), one shorter
(every position) x approved sets; star-expression containers.  Oracle: the source segments of the unmanaged
sub-expressions after the run are a subsequence of those before (identical when nothing had to be removed), each
verbatim; star containers are byte-identical; an inner snapshot() is still a call and its argument changed only if
that inner site had an approved pending change; when every unmanaged part matches the observed value and create+fix
are approved the re-executed test passes (managed siblings repaired)."""
from __future__ import annotations

import ast
import itertools

from ..engine import batch

ID = "C10"
LEVEL = "exploration"
KINDS = ("ok", "wrong", "upd", "is_eq", "is_ne", "f_eq", "f_ne", "snap_ok", "snap_wrong", "snap_empty")
UNMANAGED = {"is_eq", "is_ne", "f_eq", "f_ne", "snap_ok", "snap_wrong", "snap_empty"}
CONTAINERS = ("list", "tuple", "dict", "dc", "nested", "in", "never")
RULE = ("slot kinds %s x containers %s with n <= 3 slots x observed {same, one longer at each position, one shorter at each "
        "position} x approved sets (all 16 for n <= 2; fix / create+fix / update / all for n = 3), plus star-expression containers "
        "([*a, 1], {**d, 'k': 1}, DC(*args), DC(**kw), (*a,)) x observed x approved sets; non-trivial = the case holds at least one "
        "unmanaged slot and the session had a pending change in the container; distinct = (container, slots, observed shape, approved set)"
        % (list(KINDS), list(CONTAINERS)))
ASSUMPTIONS = ["positional arguments of dataclass-like constructor calls are outside the enumerated space: the implementation rewrites them to keyword arguments under fix (the repository's own test_dataclass_positional_arguments), so a user-controlled part inside one is removed together with the element that holds it",
               "dirty-equals values cannot be exercised (package absent); they share the Unmanaged code path with Is()",
               "observed slot values: ints for plain slots, short strings for f-string slots"]
BATCH = 40
CATS = ("create", "fix", "trim", "update")
FS = [list(c) for n in range(5) for c in itertools.combinations(CATS, n)]
F3 = [["fix"], ["create", "fix"], ["update"], list(CATS)]
DC3 = "from dataclasses import dataclass\n@dataclass\nclass DC3:\n    a: object = None\n    b: object = None\n    c: object = None\n    d: object = None\n\n\n"
KEYS = ("a", "b", "c", "d")


def bounds(tier):
    return {"hand_layouts": len(HAND), "kinds": list(KINDS), "containers": list(CONTAINERS), "max_slots": 3, "star_shapes": len(STAR)}


def obs_value(i, kind):
    return "s%d" % i if kind.startswith("f_") else 10 * i + 1


def slot_text(i, kind):
    v = obs_value(i, kind)
    if kind == "ok":
        return repr(v)
    if kind == "wrong":
        return repr(v + 5)
    if kind == "upd":
        return "%r+0" % v
    if kind == "is_eq":
        return "Is(1 * %r)" % v
    if kind == "is_ne":
        return "Is(99)"
    if kind == "f_eq":
        return "f\"{'s'}%d\"" % i
    if kind == "f_ne":
        return "f\"{'x'}%d\"" % i
    if kind == "snap_ok":
        return "snapshot(%r)" % v
    if kind == "snap_wrong":
        return "snapshot(%r)" % (v + 5)
    if kind == "snap_empty":
        return "snapshot()"
    raise ValueError(kind)


def render(cont, texts):
    if cont in ("list", "in", "never"):
        return "[" + ", ".join(texts) + "]"
    if cont == "tuple":
        return "(" + ", ".join(texts) + ("," if len(texts) == 1 else "") + ")"
    if cont == "dict":
        return "{" + ", ".join("%r: %s" % (KEYS[i], t) for i, t in enumerate(texts)) + "}"
    if cont == "dc":
        return "DC3(" + ", ".join("%s=%s" % (KEYS[i], t) for i, t in enumerate(texts)) + ")"
    if cont == "nested":
        return "{'k': [" + ", ".join(texts) + "], 'z': 0}"
    raise ValueError(cont)


def observed(cont, slots, shape):
    vals = [obs_value(i, k) for i, k in enumerate(slots)]
    if shape[0] == "longer":
        vals = vals[: shape[1]] + [77] + vals[shape[1]:]
    elif shape[0] == "shorter":
        vals = vals[: shape[1]] + vals[shape[1] + 1:]
    if cont in ("list", "in", "never"):
        return repr(vals)
    if cont == "tuple":
        return repr(tuple(vals))
    if cont in ("dict", "dc"):
        keys = list(KEYS[: len(slots)])
        if shape[0] == "longer":
            keys = keys[: shape[1]] + ["d"] + keys[shape[1]:]
        elif shape[0] == "shorter":
            keys = keys[: shape[1]] + keys[shape[1] + 1:]
        if cont == "dict":
            return "{" + ", ".join("%r: %r" % kv for kv in zip(keys, vals)) + "}"
        return "DC3(" + ", ".join("%s=%r" % kv for kv in zip(keys, vals)) + ")"
    if cont == "nested":
        return "{'k': %r, 'z': 0}" % (vals,)


STAR = [
    ("[*A, 1]", "[5, 6, 2]"), ("[*A, 1]", "[5, 6, 1, 7]"), ("[1, *A]", "[2, 5, 6]"), ("(*A,)", "(5, 7)"), ("(*A, 1)", "(5, 6, 2)"),
    ("{**D, 'k': 1}", "{'x': 1, 'k': 2}"), ("{**D, 'k': 1}", "{'x': 2, 'k': 1, 'j': 3}"), ("{'k': 1, **D}", "{'k': 2, 'x': 1}"),
    ("{**{}}", "{'a': 1}"), ("{**{}, 'k': 1}", "{'k': 2}"),
    ("DC3(*ARGS)", "DC3(1, 3)"), ("DC3(**KW)", "DC3(a=1, b=3)"), ("DC3(1, *ARGS[1:])", "DC3(2, 2)"), ("DC3(a=1, **{'b': 2})", "DC3(a=2, b=2)"),
    ("[[*A], 1]", "[[5, 7], 2]"), ("{'k': [*A, 1]}", "{'k': [5, 6, 2]}"), ("[*A]", "[5, 6]"), ("[*A, 1+0]", "[5, 6, 1]"),
]
STAR_PRE = "A = [5, 6]\nD = {'x': 1}\nD2 = {'x': 1, 'y': 2}\nARGS = (1, 2)\nKW = {'a': 1, 'b': 2}\n\n\n"


def _cases(tier):
    cases = []
    for cont in CONTAINERS:
        for n in (1, 2, 3):
            if n == 3 and tier == "quick" and cont not in ("list", "dict"):
                continue
            for slots in itertools.product(KINDS, repeat=n):
                if not (set(slots) & UNMANAGED):
                    continue
                if n == 3 and tier == "quick" and len(set(slots) & UNMANAGED) > 2:
                    continue
                shapes = [("same",)]
                if cont not in ("in", "never"):
                    shapes += [("longer", p) for p in range(n + 1)] + [("shorter", p) for p in range(n)]
                for sh in shapes:
                    if n == 3 and tier == "quick" and sh[0] != "same" and sh[1] not in (0, n - 1 if sh[0] == "shorter" else n):
                        continue
                    for F in (FS if n <= 2 else F3):
                        if n == 2 and tier == "quick" and len(F) == 3:
                            continue
                        cases.append({"c": cont, "s": list(slots), "o": list(sh), "F": F})
    # user-controlled values that change between evaluations of the same call site (Is(i) in a loop)
    for body in REEVAL:
        for F in ([], ["fix"], ["create", "fix"], ["update"], list(CATS)):
            cases.append({"reeval": body, "F": F})
    for arg, ob in DEFAULTS:
        for F in FS:
            cases.append({"dflt": arg, "obs": ob, "F": F})
    for st in HAND_OPS:
        for F in FS:
            cases.append({"handop": st, "F": F})
    for arg, ob, ok in HAND:
        for F in FS:
            cases.append({"hand": arg, "obs": ob, "agree": ok, "F": F})
            if "update" in F or not F:
                cases.append({"hand": arg, "obs": ob, "agree": ok, "F": F, "never": True})
    # one class name bound to classes of different kinds from test to test, user-controlled parts among the arguments
    for arg, ob, ok in LOCAL_HAND:
        for F in FS:
            for kind in LOCAL_KINDS:
                cases.append({"hand": arg, "obs": ob, "agree": ok, "F": F, "local": kind})
    for st, ob in STAR:
        for F in FS:
            cases.append({"star": st, "obs": ob, "F": F})
            if "update" in F or not F:
                cases.append({"star": st, "obs": ob, "F": F, "never": True})
    return cases


def build(tier, seed):
    cs = _cases(tier)
    groups = {}
    for c in cs:
        groups.setdefault("+".join(c["F"]), []).append(c)
    tasks = []
    for k, g in sorted(groups.items()):
        for i in range(0, len(g), BATCH):
            tasks.append({"cases": g[i : i + BATCH]})
    return tasks


DC5 = "@dataclass\nclass DC5:\n    p: tuple = (0, 0)\n    q: list = None\n    n: int = 0\n\n\n"
DEFAULTS = [
    ("DC5(p=(Is(0), 0), n=1)", "DC5(p=(0, 0), n=2)"),
    ("DC5(p=(Is(0), 0), n=1)", "DC5(p=(0, 0), n=1)"),
    ("DC5(p=(0, Is(0)), q=[Is(1)], n=1)", "DC5(p=(0, 0), q=[1], n=3)"),
    ("DC5(q=Is(None), n=1)", "DC5(n=2)"),
    ("DC5(p=(Is(0), 0), n=1)", "DC5(p=(0, 5), n=1)"),
    ("DC5(p=(Is(0), 0))", "DC5(p=(1, 0))"),
    ("DC5(p=(0, Is(0)), n=2)", "DC5(p=(7, 0), n=2)"),
    ("DC5(q=[Is(1)], p=(Is(0), 0))", "DC5(q=[1, 2], p=(0, 1))"),
    ("DC5(p=(snapshot(0), 0), n=1)", "DC5(p=(0, 0), n=2)"),
    ("[DC5(p=(Is(0), 0), n=1), 1]", "[DC5(n=2), 1]"),
    ("DC5(p=(f\"{0}\", 0), n=1)", "DC5(p=('0', 0), n=2)"),
]
REEVAL = [
    "assert [i, 5] == snapshot([Is(i), 5])",
    "assert {'a': i, 'b': [5]} == snapshot({'a': Is(i), 'b': [5]})",
    "assert (5, [i]) == snapshot((5, [Is(i)]))",
    "assert DC3(a=i, b=5) == snapshot(DC3(a=Is(i), b=5))",
    "s = snapshot({'a': Is(i), 'b': 2}); assert s['a'] == i; assert s['b'] == 2",
    "s = snapshot({'a': [Is(i), 2]}); assert s['a'] == [i, 2]",
    "s = snapshot({'a': {'b': Is(i)}}); assert s['a']['b'] == i",
    "assert i in snapshot([Is(i), 9])",
    "assert i + 0 == snapshot(Is(i))",
    "assert [i, 5] == snapshot([Is(i), 5+0])",
    # containers with star-expressions evaluated again (their nodes do not line up with the elements of the value)
    "assert [5, 6, i] == snapshot([*A, Is(i)])",
    "assert [5, 6, 1] == snapshot([*A, 1])",
    "assert {'k': (5, 6, i)} == snapshot({'k': (*A, Is(i))})",
    "assert {'x': 1, 'y': 2, 'k': i} == snapshot({**D2, 'k': Is(i)})",
    "assert {'x': 1, 'k': 1} == snapshot({**D, 'k': 1})",
    "assert DC3(a=1, b=2) == snapshot(DC3(**KW))",
    "assert DC3(1, 2) == snapshot(DC3(*ARGS))",
    "assert DC3(a=1, b=2, c=i) == snapshot(DC3(**KW, c=Is(i)))",
]


# hand-written layouts: (argument, observed, user-controlled parts agree with the observed value?)
# parenthesised user-controlled parts next to an inserted / deleted element, and f-strings compared with str subclasses
HAND_PRE = ("from enum import Enum\n\n\nclass Name(str):\n    pass\n\n\nclass Col(str, Enum):\n    RED = 'red'\n\n\n")
HAND = [
    ("{'a': (Is(1)), 'b': 2}", "{'a': 1}", True), ("{'a': (Is(1))}", "{'a': 1, 'c': 3}", True), ("{'a': (Is(1)), 'b': 2}", "{'a': 1, 'b': 3}", True),
    ("{'a': (f\"{'s'}0\" f\"x\"), 'b': 2}", "{'a': 's0x', 'c': 3}", True), ("{'z': 0, ('a'): Is(1)}", "{'a': 1}", True),
    ("{('a'): Is(1), 'b': 2}", "{'c': 0, 'a': 1, 'b': 2}", True), ("{'a': (Is(1)), 'b': (Is(2))}", "{'a': 1, 'x': 5, 'b': 2}", True),
    ("{'a': (Is(9)), 'b': 2}", "{'a': 1}", False),
    ("{\n        'a': (\n            f\"{'s'}0\"\n            f\"x\"\n        ),\n        'b': 2,\n    }", "{'a': 's0x'}", True),
    ("{\n        'a': (\n            f\"{'s'}0\"\n            f\"x\"\n        ),\n    }", "{'a': 's0x', 'b': 2}", True),
    ("[(Is(1)), 2]", "[1]", True), ("[2, (Is(1))]", "[1]", True), ("[(Is(1))]", "[1, 3]", True), ("[(Is(1))]", "[3, 1]", True), ("[0, (Is(1)), 2]", "[1]", True),
    ("((Is(1)), 2)", "(1,)", True), ("((Is(1)),)", "(1, 2)", True),
    ("DC3(a=(Is(1)), b=2)", "DC3(a=1)", True), ("DC3(a=(Is(1)))", "DC3(a=1, b=2)", True),
    ("{'k': [(Is(1)), 2]}", "{'k': [1], 'j': 0}", True),
    ("f\"{'r'}ed\"", "Name('red')", True), ("f\"{'r'}ed\"", "Col.RED", True), ("f\"{'x'}ed\"", "Name('red')", False), ("f\"{'x'}ed\"", "Col.RED", False),
    ("[f\"{'r'}ed\", 1]", "[Col.RED, 2]", True), ("[f\"{'r'}ed\", 1+0]", "[Name('red'), 1]", True), ("{'k': f\"{'r'}ed\", 'j': 1}", "{'k': Name('red')}", True),
    ("(f\"{'x'}ed\", 1)", "(Name('red'), 2)", False), ("DC3(a=f\"{'r'}ed\", b=1)", "DC3(a=Col.RED, b=2)", True),
    ("[Is(Name('red')), 1]", "[Name('red'), 2]", True), ("[Is('red'), 1]", "[Col.RED, 2]", True),
]


LOCAL_KINDS = {
    "dc": "    @dataclass\n    class Item:\n        a: object\n        b: int = 0\n",
    "nt": "    class Item(NamedTuple):\n        a: object\n        b: int = 0\n",
    "at": "    @attrs.define\n    class Item:\n        a: object\n        b: int = 0\n",
}
LOCAL_HAND = [("Item(a=Is(1), b=2)", "Item(a=1, b=3)", True), ("Item(a=f\"{'s'}0\", b=2)", "Item(a='s0', b=3)", True), ("[Item(a=Is(1), b=2), 0]", "[Item(a=1, b=3), 1]", True),
              ("Item(a=[Is(1), 5], b=2)", "Item(a=[1, 6], b=2)", True), ("Item(a=Is(9), b=2)", "Item(a=1, b=3)", False)]


# user-controlled parts inside bounds, members and sub-snapshot values whose comparison holds: no category has anything to do there
HAND_OPS = [
    "assert [1] <= snapshot([Is(1)])", "assert [1] >= snapshot([Is(1)])", "assert ['s0'] <= snapshot([f\"{'s'}0\"])", "assert 's0' >= snapshot(f\"{'s'}0\")",
    "assert (1, [2]) <= snapshot((1, [Is(2)]))", "assert [1] in snapshot([[Is(1)]])", "assert ['s0'] in snapshot([[f\"{'s'}0\"]])",
    "assert {'k': 1} in snapshot([{'k': Is(1)}])", "assert (1, 's0') in snapshot([(Is(1), f\"{'s'}0\")])",
    "s = snapshot({'a': f\"{'s'}0\"}); assert 's0' <= s['a']", "s = snapshot({'a': [[Is(1)]]}); assert [1] in s['a']",
    "s = snapshot({'a': [Is(1), 2]}); assert [1, 2] <= s['a']", "s = snapshot({'a': {'b': [Is(1)]}}); assert [1] >= s['a']['b']",
]


def _arg(c):
    if "star" in c:
        return c["star"]
    return render(c["c"], [slot_text(i, k) for i, k in enumerate(c["s"])])


def _site(i, c):
    if "dflt" in c:
        return "def test_%d():\n    _ok = %s == snapshot(%s)\n" % (i, c["obs"], c["dflt"])
    if "reeval" in c:
        return "def test_%d():\n    for i in (1, 2, 3, 2):\n        %s\n" % (i, c["reeval"].replace("; ", "\n        "))
    if "handop" in c:
        return "def test_%d():\n    %s\n" % (i, c["handop"].replace("; ", "\n    "))
    if "hand" in c and c.get("never"):
        return "def test_%d():\n    s = snapshot(%s)\n" % (i, c["hand"])
    if "hand" in c and c.get("local"):
        return "def test_%d():\n%s    assert %s == snapshot(%s)\n" % (i, LOCAL_KINDS[c["local"]], c["obs"], c["hand"])
    if "hand" in c:
        return "def test_%d():\n    assert %s == snapshot(%s)\n" % (i, c["obs"], c["hand"])
    if "star" in c and c.get("never"):
        return "def test_%d():\n    s = snapshot(%s)\n" % (i, c["star"])
    if "star" in c:
        return "def test_%d():\n    assert %s == snapshot(%s)\n" % (i, c["obs"], c["star"])
    if c["c"] == "in":
        vals = [obs_value(j, k) for j, k in enumerate(c["s"])]
        return "def test_%d():\n    s = snapshot(%s)\n" % (i, _arg(c)) + "".join("    _ok = %r in s\n" % v for v in vals[:1] + [vals[0]] + vals[1:2])
    if c["c"] == "never":
        return "def test_%d():\n    s = snapshot(%s)\n" % (i, _arg(c))
    return "def test_%d():\n    assert %s == snapshot(%s)\n" % (i, observed(c["c"], c["s"], tuple(c["o"])), _arg(c))


def _segments(text):
    """Source segments of unmanaged sub-expressions inside an argument text, in order:
    ("is", text) | ("f", text) | ("snap", call text, argument text)."""
    from ..oracles.locate import Loc

    loc = Loc(text)
    out = []

    def visit(n):
        if isinstance(n, ast.Call) and isinstance(n.func, ast.Name) and n.func.id == "Is":
            out.append(("is", loc.seg(n)))
            return
        if isinstance(n, ast.JoinedStr):
            out.append(("f", loc.seg(n)))
            return
        if isinstance(n, ast.Call) and isinstance(n.func, ast.Name) and n.func.id == "snapshot":
            a, b = loc.span(n)
            out.append(("snap", text[a:b], loc.seg(n.args[0]) if n.args else ""))
            return
        for ch in ast.iter_child_nodes(n):
            visit(ch)

    visit(loc.tree)
    return out


def _is_subseq(a, b):
    it = iter(b)
    return all(any(x == y for y in it) for x in a)


def _analyze(c, i, before, after, rx, ctx):
    F = set(c["F"])
    btxt, atxt = before["arg_text"], after["arg_text"]
    if "dflt" in c:
        sb, sa = _segments(btxt), _segments(atxt)
        # an argument equal to the field's default may be removed as a whole ("together with the element that holds them")
        # when update / fix is approved; if the argument stays, the user-controlled text inside must be verbatim
        ub = [x for x in sb if x[0] in ("is", "f")]
        ua = [x for x in sa if x[0] in ("is", "f")]
        gone = ("p=" in btxt and "p=" not in atxt) or ("q=" in btxt and "q=" not in atxt)
        if not _is_subseq(ua, ub) or (len(ua) != len(ub) and not (gone and F & {"update", "fix"})):
            return ("unmanaged-text-altered", "%s -> %s" % (btxt, atxt))
        if len([x for x in sa if x[0] == "snap"]) > len([x for x in sb if x[0] == "snap"]):
            return ("unmanaged-text-altered", "%s -> %s" % (btxt, atxt))
        if "fix" in F and "n=2" in c["obs"] and "n=2" not in atxt.replace(" ", ""):
            return ("managed-siblings-not-repaired", "%s -> %s" % (btxt, atxt))
        return None
    if "handop" in c:
        if atxt != btxt:
            return ("unmanaged-text-altered", "the comparison holds, nothing is pending: %s -> %s (approved %s)" % (btxt, atxt, sorted(F)))
        return None
    if "hand" in c:
        try:
            sb, sa = _segments(btxt), _segments(atxt)
        except SyntaxError as e:
            return ("argument-unparsable", "%r: %s" % (atxt[:200], e))
        ub = [x for x in sb if x[0] in ("is", "f")]
        ua = [x for x in sa if x[0] in ("is", "f")]
        if ub != ua:
            return ("unmanaged-text-altered", "before %s after %s | %s -> %s" % ([x[1] for x in ub], [x[1] for x in ua], btxt, atxt))
        if c.get("never") and "+0" not in btxt and atxt.split() != btxt.split() and "(Is(" not in btxt:
            return ("unmanaged-text-altered", "never compared, nothing pending: %s -> %s" % (btxt, atxt))
        if c["agree"] and {"create", "fix"} <= F and not c.get("never") and rx is not None:
            return ("managed-siblings-not-repaired", "re-execution fails: %s | %s -> %s" % (rx, btxt, atxt))
        return None
    if "reeval" in c:
        raised = str(ctx["r"].get("raised") or "")
        if raised:
            return ("changing-user-controlled-value-breaks-re-evaluation", raised[:200])
        sb, sa = _segments(btxt), _segments(atxt)
        if [x for x in sb if x[0] == "is"] != [x for x in sa if x[0] == "is"]:
            return ("unmanaged-text-altered", "%s -> %s" % (btxt, atxt))
        if "5+0" not in btxt and " in snapshot(" not in c["reeval"] and atxt != btxt:
            return ("unmanaged-text-altered", "nothing is pending: %s -> %s" % (btxt, atxt))
        return None
    if "star" in c:
        # every container that directly holds a star-expression must survive verbatim
        from ..oracles.locate import Loc

        loc = Loc(btxt)
        for n in ast.walk(loc.tree):
            starred = (isinstance(n, (ast.List, ast.Tuple)) and any(isinstance(e, ast.Starred) for e in n.elts)) or (
                isinstance(n, ast.Dict) and None in n.keys) or (
                isinstance(n, ast.Call) and (any(isinstance(a, ast.Starred) for a in n.args) or any(k.arg is None for k in n.keywords)))
            if starred and loc.seg(n) not in atxt:
                return ("star-expression-container-rewritten", "%r -> %r" % (btxt, atxt))
        return None
    try:
        sb, sa = _segments(btxt), _segments(atxt)
    except SyntaxError as e:
        return ("argument-unparsable", "%r: %s" % (atxt[:200], e))
    # Is() and f-strings: verbatim, in order; all of them when nothing is removed
    ub = [s for s in sb if s[0] in ("is", "f")]
    ua = [s for s in sa if s[0] in ("is", "f")]
    if not _is_subseq(ua, ub):
        return ("unmanaged-text-altered", "before %s after %s | %s -> %s" % ([s[1] for s in ub], [s[1] for s in ua], btxt, atxt))
    # "removed only together with the element that holds them": the alignment may delete an element whose value does not
    # occur in the observed sequence (shorter value, or longer value next to an unequal user-controlled slot)
    unequal = sum(1 for k in c["s"] if k in ("is_ne", "f_ne", "snap_wrong", "snap_empty"))
    removable = (1 if c["o"][0] == "shorter" else 0) + (unequal if c["o"][0] != "same" else 0)
    removal_possible = removable > 0 and ("fix" in F or (c["c"] == "dc" and "update" in F))
    if c["c"] == "never":
        removal_possible = False
    if c["c"] == "in":
        # only the first two slot values are tested; trim removes members that were never tested (with their element)
        untested = sum(1 for j, k in enumerate(c["s"]) if j >= 2 or k in ("is_ne", "f_ne", "snap_wrong", "snap_empty"))
        removable = untested
        removal_possible = untested > 0 and "trim" in F
    if not removal_possible and len(ua) != len(ub):
        return ("unmanaged-part-removed", "before %s after %s | %s -> %s" % ([s[1] for s in ub], [s[1] for s in ua], btxt, atxt))
    if removal_possible and (len(ub) + len([x for x in sb if x[0] == "snap"])) - (len(ua) + len([x for x in sa if x[0] == "snap"])) > removable:
        return ("unmanaged-part-removed", "more elements vanished than the alignment can justify: %s -> %s" % (btxt, atxt))
    # inner snapshots: still calls; argument changes only through their own approved pending change
    nb = [s for s in sb if s[0] == "snap"]
    na = [s for s in sa if s[0] == "snap"]
    if len(na) > len(nb) or (not removal_possible and len(na) != len(nb)):
        return ("inner-snapshot-call-lost", "%s -> %s" % (btxt, atxt))
    # an inner snapshot is compared positionally by the container's own equality / membership test, so with a longer or
    # shorter observed value (or under `in`) it legitimately sees other values: its argument is only checked for equal shapes
    positional = c["o"][0] == "same" and c["c"] != "in"
    if len(na) == len(nb) and positional:
        snap_kinds = [k for k in c["s"] if k.startswith("snap_")]
        for (_, cb, ab), (_, ca, aa), k in zip(nb, na, snap_kinds):
            allowed = (k == "snap_wrong" and "fix" in F) or (k == "snap_empty" and "create" in F)
            if ab != aa and not allowed:
                return ("inner-snapshot-edited-without-own-approved-change", "%s -> %s (slot %s, approved %s)" % (cb, ca, k, sorted(F)))
    # managed siblings repaired when the user-controlled parts agree with the observed value
    consistent = not any(k in ("is_ne", "f_ne") for k in c["s"]) and (positional or not any(k.startswith("snap_") for k in c["s"]))
    if consistent and {"create", "fix"} <= F and c["c"] != "never" and rx is not None:
        return ("managed-siblings-not-repaired", "re-execution fails: %s | %s -> %s" % (rx, btxt, atxt))
    return None


def _judge(cases):
    star = any("star" in c or "*" in c.get("reeval", "") for c in cases)
    hdr = DC3 + DC5 + HAND_PRE + (STAR_PRE if star else "")
    if any(c.get("local") for c in cases):
        hdr = "from dataclasses import dataclass\nfrom typing import NamedTuple\nimport attrs\n" + hdr
    return batch.one_file(cases, _site, lambda c: ["Is"], cases[0]["F"], _analyze, header=hdr)


def run_case(case):
    return batch.replay(case, _judge)


def run_task(task):
    return batch.run_batched(task["cases"], _judge,
                             label=lambda c: "ok:handop" if "handop" in c else "ok:hand" if "hand" in c else "ok:star" if "star" in c else ("ok:reeval" if "reeval" in c else "ok:defaults" if "dflt" in c else "ok:%s:%s" % (c["c"], c["o"][0])),
                             key=lambda c: repr(sorted(c.items())),
                             # (re-evaluation sites are judged by a batch-wide "a test raised": only the local-class sites are strict)
                             strict_batch=lambda c: bool(c.get("local")))
