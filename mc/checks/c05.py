"""C05 - each category means what the documentation says.
Explicit-state exploration: states = abstract snapshot arguments, actions = (observation script, approved set),
transition function = one real session (Example.run_inline on a single-site file).  An independent executable
model (mc/models/category.py) runs in lock-step: reported categories and the next state must agree on every
transition; newly reached states are expanded again (histories), up to a depth bound."""
from __future__ import annotations

import itertools
import json

from ..models import category as M

ID = "C05"
LEVEL = "model_checking"
RULE = ("BFS over (operation, abstract argument) states from seed states (empty call, hand-written non-canonical texts); "
        "every enabled (observation script, approved subset of {create,fix,trim,update}) is executed as one real session "
        "on a single-site file whose argument text is the verbatim text the implementation wrote when the state was first "
        "reached; the reference model must predict the reported categories and the next abstract state of every transition"
        "; plus constructor-call states (keyword / positional) and values with a non-symmetric == against their HasRepr stand-in")
ASSUMPTIONS = [
    "values are ints / short strings / None and list, tuple, dict displays of them; hand-written text is `v+0`",
    "test bodies record comparison results instead of asserting, so observations do not depend on the approved set",
    "== observations inside one session are one repeated value (contradicting tests are exempt by the property)",
    "bounds over a partial order (sets by inclusion): observations of one site form a chain; incomparable observations have no tightest bound",
    "reported categories are per session in run_inline, hence one call site per session",
]
CATS = ("create", "fix", "trim", "update")
FS = [list(c) for n in range(5) for c in itertools.combinations(CATS, n)]
FS_SMALL = [[], ["create"], ["fix"], ["trim"], ["update"], ["create", "fix"], ["fix", "trim"], list(CATS)]
CHUNK = 160


def tup(x):
    if isinstance(x, list):
        return tuple(tup(i) for i in x)
    return x


def L(v, canon=True):
    return ("leaf", v, canon)


SEEDS = {
    "==": [M.NONE, L(0, False), L(1), ("list", (L(0, False), L(1))), ("dict", (("a", L(0, False)),)), ("tuple", (L(0, False),))],
    "<=": [M.NONE, L(1, False), L(2)],
    ">=": [M.NONE, L(1, False), L(0)],
    "in": [M.NONE, ("list", (L(0, False),)), ("list", (L(1), L(0, False), L(2))), ("list", (L(0, False), L(1, False)))],
    "[k]": [M.NONE, ("dict", (("a", L(0, False)),)), ("dict", (("a", L(0)), ("b", L(1, False)), ("c", L(2)))),
            ("dict", (("a", ("list", (L(0, False), L(1)))),)), ("dict", (("a", ("dict", (("b", L(0, False)),))),))],
}
EQ_DOM = [0, 1, "a", None, [], [0], [0, 1], [1, 0], [0, 1, 2], {"a": 0}, {"a": 0, "b": 1}, {"b": 1, "a": 0}, (0,), (0, 1), ()]


def bounds(tier):
    return {"constructor_call_family": {"previous": CT_PREV, "observed": "equal / second field differs / first field differs", "evaluations": [1, 2], "approved_sets": 16}, "partial_order_family": {"values": PO_VALUES, "chains": len(PO_CHAINS), "ops": ["<=", ">="], "approved_sets": 16, "depth": 1}, "depth": _depth(tier), "depth_sub_snapshots": 2, "int_domain": _dom(tier), "max_observations": 3, "approved_sets": "all 16 (quick: 8 for sub-snapshot states at depth >= 1)" if tier == "quick" else 16,
            "eq_domain": len(EQ_DOM), "seeds": {k: len(v) for k, v in SEEDS.items()}}


def _depth(tier):
    return 2 if tier == "quick" else 3


def _dom(tier):
    return [0, 1, 2] if tier == "quick" else [0, 1, 2, 3]


def _seqs(dom, n):
    out = []
    for k in range(1, n + 1):
        out += [list(s) for s in itertools.product(dom, repeat=k)]
    return out


def _child_opts(child, tier):
    """Observation scripts for one key of a sub-snapshot, given the key's current abstract child (or None)."""
    opts = [("skip",), ("touch",)]
    kind = child[0] if child is not None else None
    for x in (0, 1):
        opts.append(("==", {"x": x, "n": 1}))
    if kind in (None, "leaf"):
        for xs in ([0], [1], [1, 0]) if tier == "quick" else ([0], [1], [2], [1, 0], [0, 2]):
            opts.append(("<=", {"xs": xs}))
        if tier != "quick":
            opts.append((">=", {"xs": [1]}))
    if kind in (None, "list"):
        for xs in ([0], [1, 0]) if tier == "quick" else ([0], [1], [1, 0], [2, 0]):
            opts.append(("in", {"xs": xs}))
    if kind in (None, "dict"):
        opts.append(("[k]", {"acc": [["b", "==", {"x": 1, "n": 1}]]}))
        if tier != "quick":
            opts.append(("[k]", {"acc": [["b", "<=", {"xs": [0]}], ["z", "==", {"x": 0, "n": 1}]]}))
    return opts


def actions(op, state, tier):
    dom = _dom(tier)
    acts = [None]
    if op == "==":
        for x in EQ_DOM:
            if state != M.NONE and M.noncanon(state) and M.val(state) != x:
                continue  # partly hand-written container that needs a fix: which elements are edited is C11's subject
            acts.append({"x": x, "n": 1})
        acts.append({"x": 1, "n": 2})
        acts.append({"x": [0, 1], "n": 3})
    elif op in ("<=", ">="):
        isstr = state != M.NONE and isinstance(M.val(state), str)
        if not isstr:
            acts += [{"xs": s} for s in _seqs(dom, 3)]
        if state == M.NONE or isstr:
            acts += [{"xs": s} for s in (["a"], ["b", "a"], ["a", "c", "b"], ["c", "a"])]
    elif op == "in":
        acts += [{"xs": s} for s in _seqs(dom, 3)]
    elif op == "[k]":
        cur = dict(state[1]) if state != M.NONE else {}
        keys = ["a", "b"]  # a third key only occurs in seed states: 3 keys x 13 child scripts each is > 10^7 transitions
        per = [_child_opts(cur.get(k), tier) for k in keys]
        for combo in itertools.product(*per):
            acc = []
            for k, o in zip(keys, combo):
                if o[0] == "skip":
                    continue
                acc.append([k, None, None] if o[0] == "touch" else [k, o[0], o[1]])
            if acc:
                acts.append({"acc": acc})
                if len(acc) == 2 and tier != "quick":
                    acts.append({"acc": acc[::-1]})
    return acts


# ------------------------------------------------------------------ program text

def _body(op, act, s="s", out=None, depth=0):
    out = [] if out is None else out
    if act is None:
        return out
    if op == "==":
        out += ["_r.append(%r == %s)" % (act["x"], s)] * act.get("n", 1)
    elif op == "==r":
        out += ["_r.append(%s == %r)" % (s, act["x"])] * act.get("n", 1)
    elif op in ("<=", ">=", "in"):
        for x in act["xs"]:
            out.append("_r.append(%r %s %s)" % (x, op, s))
    elif op == "[k]":
        for k, o, a in act["acc"]:
            c = "c%d_%s" % (depth, k)
            out.append("%s = %s[%r]" % (c, s, k))
            if o is not None:
                _body(o, a, c, out, depth + 1)
    return out


def source(op, arg, act):
    lines = ["s = snapshot(%s)" % arg, "_r = []"] + _body(op, act)
    return "from inline_snapshot import snapshot\n\n\ndef test_0():\n" + "".join("    " + l + "\n" for l in lines)


# ------------------------------------------------------------------ one transition

def _step(case):
    from ..drivers.inline import run_inline
    from ..oracles.locate import snapshot_calls

    op, arg, act, F = case["op"], case["arg"], case["act"], case["F"]
    prev = M.abstract(arg)
    R, nxt = M.step(op, prev, act, F)
    src = source(op, arg, act)
    r = run_inline({"test_something.py": src}, F)
    viol = []
    info = {"next": None, "text": None}

    def V(what, detail):
        viol.append({"case": case, "what": what, "detail": detail + " | model: R=%s next=%s | source:\n%s" % (sorted(R), M.text(nxt), src)})

    if r["error"]:
        V("internal-error", r["error"]["type"] + ": " + r["error"]["msg"][:300])
        return viol, info
    if r["raised"]:
        V("test-raised", str(r["raised"])[:300])
        return viol, info
    after = r["files"]["test_something.py"]
    try:
        calls = snapshot_calls(after)
        got = M.abstract(calls[0]["arg_text"])
    except (SyntaxError, ValueError) as e:
        V("unmodelled-or-unparsable-result", "%s: %s" % (type(e).__name__, e))
        return viol, info
    info["next"] = got
    info["text"] = calls[0]["arg_text"].strip()
    if sorted(r["reported"] or []) != sorted(R):
        V("categories-differ", "reported=%s" % (r["reported"],))
    if got != nxt:
        V("next-value-differs", "written=%s" % calls[0]["arg_text"].strip()[:200])
    return viol, info


# ------------------------------------------------------------------ bounds over a partial order (sets ordered by inclusion)

PO_VALUES = ["set()", "{0}", "{1}", "{0, 1}", "{0, 2}", "{0, 1, 2}"]
PO_CHAINS = [["{0}", "{0, 1}"], ["{0, 1}", "{0}"], ["set()", "{1}"], ["{0}", "{0, 1}", "{0, 1, 2}"], ["{0, 1, 2}", "{0}"]]


def _po_cases():
    cases = []
    for op in ("<=", ">="):
        for prev in [""] + PO_VALUES:
            for xs in [[v] for v in PO_VALUES] + PO_CHAINS:
                for F in FS:
                    cases.append({"po": True, "op": op, "arg": prev, "xs": xs, "F": F})
    return cases


def _po_model(op, prev, xs, F):
    """One call site, observations form a chain under inclusion: the documented bound rules, with 'fails' meaning
    the comparison against the current value is false (which for incomparable sets is the case in both directions)."""
    vals = [eval(x) for x in xs]
    e = max(vals, key=len) if op == "<=" else min(vals, key=len)
    if prev == "":
        return {"create"}, (e if "create" in F else None)
    p = eval(prev)
    holds = all((v <= p) if op == "<=" else (v >= p) for v in vals)
    if not holds:
        return {"fix"}, (e if "fix" in F else p)
    if e != p:
        return {"trim"}, (e if "trim" in F else p)
    return set(), p


def _po_step(case):
    from ..drivers.inline import run_inline
    from ..oracles.locate import snapshot_calls

    op, arg, xs, F = case["op"], case["arg"], case["xs"], case["F"]
    R, nxt = _po_model(op, arg, xs, set(F))
    lines = ["s = snapshot(%s)" % arg, "_r = []"] + ["_r.append(%s %s s)" % (x, op) for x in xs]
    src = "from inline_snapshot import snapshot\n\n\ndef test_0():\n" + "".join("    " + l + "\n" for l in lines)
    r = run_inline({"test_something.py": src}, F)
    viol = []

    def V(what, detail):
        viol.append({"case": case, "what": what, "detail": detail + " | model: R=%s next=%r | source:\n%s" % (sorted(R), nxt, src)})

    if r["error"]:
        V("internal-error", r["error"]["type"] + ": " + r["error"]["msg"][:300])
        return viol, R
    if r["raised"]:
        V("test-raised", str(r["raised"])[:300])
        return viol, R
    txt = snapshot_calls(r["files"]["test_something.py"])[0]["arg_text"].strip()
    got = eval(txt) if txt else None
    if sorted(r["reported"] or []) != sorted(R):
        V("categories-differ", "reported=%s" % (r["reported"],))
    if got != nxt:
        V("next-value-differs", "written=%s" % txt[:200])
    return viol, R


# ------------------------------------------------------------------ constructor calls (dataclass / namedtuple / attrs), keyword and positional spelling

CT_PRE = ("from dataclasses import dataclass\nfrom collections import namedtuple\nimport attrs\n\n\n@dataclass\nclass DC2:\n    a: int\n    b: int = 0\n\n\n"
          "NT2 = namedtuple('NT2', 'a,b')\n\n\n@attrs.define\nclass AT2:\n    a: int\n    b: int = 0\n\n\n"
          "@dataclass\nclass DCB:\n    a: int\n    b: int = 0\n\n\n@dataclass\nclass DCS2(DC2):\n    pass\n\n\n")
# values whose == is not symmetric with the HasRepr stand-in that create writes for them: `Strict.__eq__` answers False for
# every foreign type, so `stored == value` holds while `value == stored` does not; the snapshot is the left operand
CT_PRE += ("from inline_snapshot import HasRepr\n\n\nclass Strict:\n    def __init__(self, n):\n        self.n = n\n\n    def __repr__(self):\n        return '<Strict %d>' % self.n\n\n"
           "    def __eq__(self, other):\n        if not isinstance(other, Strict):\n            return False\n        return self.n == other.n\n\n\n"
           "class Polite(Strict):\n    def __repr__(self):\n        return '<Polite %d>' % self.n\n\n"
           "    def __eq__(self, other):\n        if not isinstance(other, Polite):\n            return NotImplemented\n        return self.n == other.n\n\n\n")
AE_PREV = [("HasRepr(Strict, '<Strict 1>')", "Strict(%d)"), ("HasRepr(Polite, '<Polite 1>')", "Polite(%d)"), ("[HasRepr(Strict, '<Strict 1>'), 0]", "[Strict(%d), 0]"),
           ("{'k': HasRepr(Strict, '<Strict 1>')}", "{'k': Strict(%d)}"), ("(0, [HasRepr(Polite, '<Polite 1>')])", "(0, [Polite(%d)])"),
           ("DC2(a=HasRepr(Strict, '<Strict 1>'), b=2)", "DC2(a=Strict(%d), b=2)")]
CT_PREV = ["DC2(a=1, b=2)", "DC2(1, 2)", "DC2(1, b=2)", "NT2(a=1, b=2)", "NT2(1, 2)", "AT2(a=1, b=2)", "AT2(1, 2)"]


def _ct_cases():
    cases = []
    for prev in CT_PREV:
        cls = prev[:3]
        others = ("DCB(a=1, b=2)", "DCS2(a=1, b=2)", "DCB(a=1, b=3)") if cls == "DC2" and "=" in prev.split(",")[0] else ()
        for obs in ("%s(a=1, b=2)" % cls, "%s(a=1, b=3)" % cls, "%s(a=5, b=2)" % cls) + others:
            for n in (1, 2):
                for F in FS:
                    cases.append({"ct": True, "arg": prev, "obs": obs, "n": n, "F": F})
    for prev, tmpl in AE_PREV:
        for k in (1, 2):
            for n in (1, 2):
                for F in FS:
                    cases.append({"ct": True, "ae": True, "arg": prev, "obs": tmpl % k, "n": n, "F": F})
    return cases


def _ct_step(case):
    """Equal value: nothing may be reported as fix (no comparison fails); different value: fix, and the value after an approved fix
    equals the observed one.  A positional spelling is known to be reported as fix even when the value is equal (known finding)."""
    import sys
    import types
    from ..drivers.inline import run_inline
    from ..oracles.locate import snapshot_calls

    arg, obs, F = case["arg"], case["obs"], set(case["F"])
    src = "from inline_snapshot import snapshot\n" + CT_PRE + "def test_0():\n    _r = []\n" + "    _r.append(%s == snapshot(%s))\n" % (obs, arg) * 1
    if case.get("ae"):
        src = src.replace("_r.append(%s == snapshot(%s))" % (obs, arg), "_r.append(snapshot(%s) == %s)" % (arg, obs))
    if case["n"] == 2:
        src = src.replace("    _r.append(", "    for _ in (1, 2):\n        _r.append(", 1)
    r = run_inline({"test_something.py": src}, sorted(F))
    viol = []
    mod = types.ModuleType("c05_ct")
    sys.modules[mod.__name__] = mod
    exec(compile(CT_PRE, "<ct>", "exec"), mod.__dict__)
    equal = eval(arg, mod.__dict__) == eval(obs, mod.__dict__)
    positional = "=" not in arg.split(",")[0] and not case.get("ae")
    R = set() if equal else {"fix"}

    def V(what, detail, sig=None):
        viol.append({"case": case, "what": what, "detail": detail + " | expected R=%s | source:\n%s" % (sorted(R), src[len(CT_PRE) + 36:]), "sig": sig})

    if r["error"]:
        V("internal-error", r["error"]["type"] + ": " + r["error"]["msg"][:300])
        return viol, R
    if r["raised"]:
        V("test-raised", str(r["raised"])[:300])
        return viol, R
    txt = snapshot_calls(r["files"]["test_something.py"])[0]["arg_text"].strip()
    got = eval(txt, mod.__dict__)
    rep = set(r["reported"] or [])
    want_after = eval(obs, mod.__dict__) if ("fix" in F and (not equal or (positional and rep == {"fix"}))) else eval(arg, mod.__dict__)
    if got != want_after:
        V("next-value-differs", "written=%s" % txt[:200])
    elif rep - {"update"} != R:
        sig = None
        if equal and positional and rep == {"fix"} and ("fix" not in F or "(a" in txt.replace(" ", "").replace("=", "", 0)[:7]):
            # residual test: the value is unchanged, and once fix is approved the call is spelled with keywords only
            if "fix" not in F or all("=" in part for part in txt[txt.index("(") + 1 : txt.rindex(")")].split(",")):
                sig = "positional-arguments-reported-as-fix"
        V("categories-differ", "reported=%s for %s value" % (sorted(rep), "an equal" if equal else "a different"), sig)
    return viol, R


def run_case(case):
    if case.get("ct"):
        return _ct_step(case)[0]
    if case.get("po"):
        return _po_step(case)[0]
    return _step(case)[0]


def _po_task(task):
    out = {"n": 0, "nontrivial": [], "outcomes": {}, "violations": [], "samples": [], "states": [], "transitions": 0, "validated": 0, "next": []}
    for case in task["po_cases"]:
        viol, R = _po_step(case)
        out["n"] += 1
        out["transitions"] += 1
        lab = "po:%s:%s" % (case["op"], "+".join(sorted(R)) or "none")
        if viol:
            out["violations"] += viol
            lab = "viol:" + viol[0]["what"]
        else:
            out["validated"] += 1
            if R:
                out["nontrivial"].append(json.dumps(case, sort_keys=True))
        out["outcomes"][lab] = out["outcomes"].get(lab, 0) + 1
    out["states"] = sorted({"po|%s|%s" % (c["op"], c["arg"]) for c in task["po_cases"]})
    return out


def _ct_task(task):
    out = {"n": 0, "nontrivial": [], "outcomes": {}, "violations": [], "samples": [], "states": [], "transitions": 0, "validated": 0}
    for case in task["ct_cases"]:
        viol, R = _ct_step(case)
        out["n"] += 1
        out["transitions"] += 1
        lab = "ctor:%s" % ("+".join(sorted(R)) or "none")
        if viol:
            out["violations"] += viol
            lab = "viol:" + viol[0]["what"]
        else:
            out["validated"] += 1
            out["nontrivial"].append(json.dumps(case, sort_keys=True))
        out["outcomes"][lab] = out["outcomes"].get(lab, 0) + 1
    out["states"] = sorted({"ctor|" + c["arg"] for c in task["ct_cases"]})
    return out


def run_task(task):
    if "ct_cases" in task:
        return _ct_task(task)
    if "po_cases" in task:
        return _po_task(task)
    op, arg = task["op"], task["arg"]
    out = {"n": 0, "nontrivial": [], "outcomes": {}, "violations": [], "samples": [], "states": [], "transitions": 0,
           "validated": 0, "next": []}
    for act, F in task["steps"]:
        case = {"op": op, "arg": arg, "act": act, "F": F}
        viol, info = _step(case)
        out["n"] += 1
        out["transitions"] += 1
        prev = M.abstract(arg)
        R, nxt = M.step(op, prev, act, F)
        lab = "%s:%s:%s" % (op, "+".join(sorted(R)) or "none", "applied" if nxt != prev else "kept")
        if viol:
            out["violations"] += viol
            lab = "viol:" + viol[0]["what"]
        else:
            out["validated"] += 1
            if R:
                out["nontrivial"].append(json.dumps([op, arg, act, F]))
        out["outcomes"][lab] = out["outcomes"].get(lab, 0) + 1
        if info["next"] is not None and not viol:
            out["next"].append([info["next"], info["text"]])
    if task["steps"]:
        a, F = task["steps"][len(task["steps"]) // 2]
        out["samples"].append({"op": op, "state": arg, "action": a, "approved": F, "program": source(op, arg, a)})
    return out


def explore(tier, seed, runner):
    done = []
    seen = {}
    frontier = []
    for op, seeds in SEEDS.items():
        for s in seeds:
            seen[(op, s)] = M.text(s)
            frontier.append((op, s))
    depth = 0
    while frontier and depth < _depth(tier):
        if tier != "quick" and depth >= 2:
            frontier = [(op, s) for op, s in frontier if op != "[k]"]  # sub-snapshot states: depth 2 (see bounds)
        tasks = []
        for op, s in frontier:
            fs = FS_SMALL if (tier == "quick" and op == "[k]" and depth >= 1) else FS
            steps = [(a, F) for a in actions(op, s, tier) for F in fs]
            for i in range(0, len(steps), CHUNK):
                tasks.append({"op": op, "arg": seen[(op, s)], "steps": steps[i : i + CHUNK], "depth": depth})
        if depth == 0:
            po = _po_cases()
            tasks += [{"po_cases": po[i : i + CHUNK]} for i in range(0, len(po), CHUNK)]
            ct = _ct_cases()
            tasks += [{"ct_cases": ct[i : i + CHUNK]} for i in range(0, len(ct), CHUNK)]
        results = runner(tasks)
        new = []
        for t, r in zip(tasks, results):
            done.append((t, r))
            if "po_cases" in t or "ct_cases" in t:
                if r and r[0] == "ok":
                    r[1].pop("next", None)
                continue
            if r and r[0] == "ok":
                r[1]["states"] = [t["op"] + "|" + t["arg"]]
                for st, txt in r[1].pop("next"):
                    key = (t["op"], tup(st))
                    if key not in seen:
                        seen[key] = txt
                        new.append(key)
        frontier = new
        depth += 1
    explore.unexpanded = len(frontier)
    return done


def finish(agg, cov, tier):
    cov["unexpanded_frontier_states"] = getattr(explore, "unexpanded", None)
    cov["explanation"] = ("states = distinct (operation, argument text) pairs whose outgoing transitions were all executed; "
                          "transitions = real sessions; traces_validated_against_impl = transitions on which model and "
                          "implementation agreed on categories and next state")


