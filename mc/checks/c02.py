"""C02 - approving create and fix repairs every reached snapshot in a single run.
(previous argument text, newly observed value) pairs over a value universe x hand layouts of the previous
text, plus multi-snapshot bodies (first/middle/last wrong or empty, loops, sub-snapshots); one session with
{create, fix}; oracle: every test of the rewritten module passes with inline-snapshot inactive."""
from __future__ import annotations

import itertools

from ..engine import batch
from ..gen import values as G
from ..gen import render as R

ID = "C02"
LEVEL = "exploration"
RULE = ("all ordered pairs (p, v) of a value universe with p's text in several hand layouts as previous snapshot argument and v "
        "as the observed value (== and reflected ==), plus all ordered k-tuples of a statement menu (wrong / empty / correct "
        "snapshots, loops with <=, in, sub-snapshots with wrong and missing keys, nested containers, constructor calls) as "
        "one test body; run once with create+fix, then re-executed with inline-snapshot inactive; non-trivial = the file "
        "changed for that test and its re-execution passed; distinct = (previous text, value) or body"
        "; bodies also hold nested snapshots next to wrong elements and repr() observations, each body again after a first test whose comparison / code generation raises")
ASSUMPTIONS = ["tests that contradict themselves and user-controlled parts (Is, f-strings, star-expressions) are excluded (C10)",
               "classes are defined in the module prologue; Opaque values get the HasRepr import up front"]
BATCH = 40

MENU = [
    ["assert 5 == snapshot(4)"],
    ["assert 5 == snapshot()"],
    ["assert 5 == snapshot(5)"],
    ["for x in (1, 8, 2):", "    assert x <= snapshot(5)"],
    ["for x in (1, 2):", "    assert x in snapshot([2, 3])"],
    ['s = snapshot({"a": 1, "b": 2})', 'assert s["a"] == 5', 'assert s["c"] == 3'],
    ["assert [1, (2,)] == snapshot([1, (3, 4)])"],
    ["assert DC(x=2) == snapshot(DC(x=1, y=3))"],
    ["assert 3 >= snapshot()"],
    ['assert {"a": 1} == snapshot({"b": 1})'],
    ['s = snapshot()', 'assert s["k"]["j"] == 1', 'assert 2 in s["l"]'],
    ["assert (1, 2) == snapshot((1,))"],
    ['assert "a\\nb" == snapshot("a")'],
    ["for x in (3, 1):", "    assert x >= snapshot(2)"],
    ["assert defaultdict(list, {1: [2]}) == snapshot(defaultdict(list))"],
    ["assert NT(a=1, b=[2]) == snapshot(NT(a=1, b=[]))"],
    # the test looks at the builtin repr() of its values
    ["assert repr(Color.RED) == snapshot()", "assert repr(DC(x=1)) == snapshot('')"],
    ["assert [repr({2, 1}), repr(int), repr(1j - 0.0)] == snapshot([])"],
    # nested snapshots behind / before a wrong element of the container that holds them
    ["assert [1, 2, 3] == snapshot([5, snapshot(), 3])"],
    ["assert [1, 2] == snapshot([1, snapshot(5)])"],
    ['assert {"a": 1, "b": 2} == snapshot({"a": 0, "b": snapshot()})'],
    ["assert (1, [2], 3) == snapshot((0, [snapshot()], snapshot(4)))"],
    ["assert DC(x=1, y=2) == snapshot(DC(x=0, y=snapshot()))"],
    ["assert [snapshot(1), 7] == [1, 7]", "assert [0, [1, 2]] == snapshot([9, [snapshot(), snapshot(3)]])"],
]
# a test whose comparison raises inside the list alignment must not disturb the snapshots of later tests
RAISING_FIRST = ("class Strict:\n    def __init__(self, n):\n        self.n = n\n    def __eq__(self, other):\n        if not isinstance(other, Strict):\n"
                 "            raise TypeError('cannot compare Strict with %s' % type(other).__name__)\n        return self.n == other.n\n"
                 "    def __repr__(self):\n        return 'Strict(%d)' % self.n\n\n\n"
                 "def test_aa_raises():\n    try:\n        assert [Strict(1), 2] == snapshot([1, 2, 3])\n    except TypeError:\n        pass\n\n\n")


# a test in which generating the code of the new value fails (its __repr__ raises) must not disturb later tests either
RAISING_REPR = ("class Lazy:\n    def __init__(self, loaded):\n        self.loaded = loaded\n    def __eq__(self, other):\n        if not isinstance(other, Lazy):\n"
                "            return NotImplemented\n        return self.loaded == other.loaded\n"
                "    def __repr__(self):\n        if not self.loaded:\n            raise RuntimeError('not loaded')\n        return 'Lazy(True)'\n\n\n"
                "def test_aa_raises():\n    try:\n        assert Lazy(False) == snapshot(Lazy(True))\n    except RuntimeError:\n        pass\n"
                "    try:\n        assert [0, Lazy(False)] == snapshot([0, 1])\n    except RuntimeError:\n        pass\n\n\n")


def bounds(tier):
    return {"universe": len(_universe(tier)), "styles": list(_styles(tier)), "menu": len(MENU), "body_len": _blen(tier)}


def _styles(tier):
    return ("asis", "multiline", "parens", "lambda", "ctor") if tier == "quick" else R.STYLES


def _blen(tier):
    return 2 if tier == "quick" else 3


def _universe(tier):
    extra = [G.V(e, "x", False, None) for e in (
        "[]", "[0]", "[0, 'a']", "[0, 'a', None]", "['a', 0]", "()", "(0,)", "(0, 'a')", "(0, 'a', None)",
        "{}", "{'k0': 0}", "{'k0': 0, 'k1': 'a'}", "{'k1': 'a', 'k0': 0}", "{'k1': 0}", "{'k0': 0, 'k1': 'a', 'k2': None}",
        "{'k1': 'b', 'k0': 0}", "{'k1': 'a', 'k0': 1}", "{'k1': 0, 'k0': 'a'}", "{'k2': None, 'k0': 1, 'k1': 'a'}", "{'k1': [0], 'k0': {'k1': 1}}",
        "[0, 0]", "[0, 0, 0]", "['a', 0, 'a', 0]", "(None, None)", "(None, None, None)", "[0, 'a', 0]",
        "[[0]]", "[(0,)]", "[[0], ['a', 0]]", "{'k0': [0, 1]}", "{'k0': {'k1': 0}}", "[{'k0': 0}]", "({'k0': (0,)},)",
        "{0, 1}", "{0}", "set()", "frozenset({0})", "{'a', 0}",
        "DC(x=[0])", "DC(x=[0, 1], y=1)", "[DC(x=1)]", "[DC(x=1), DC(x=2, y=2)]", "{'k0': DC(x=1)}", "DC(x=DC(x=1))",
        "AT(a=[1])", "[AT(a=1)]", "PM(a={'k0': 1})", "[PM(a=1)]", "NT(a=[1], b=2)", "[NT(a=1, b=2)]",
        "defaultdict(list, {'a': [1], 'b': []})", "[Opaque(1)]", "{'k0': Opaque(2)}", "Opaque(2)", "[Color.RED, Color.GREEN]",
        # constructor calls written with positional arguments (hand-written style)
        "DC(1)", "DC(1, 2)", "DC(1, 2, [3])", "NT(1, 2)", "NT(1, b=2)", "NTD(1)", "NTD(1, 2)", "AT(1)", "AT(1, 2, [3])", "defaultdict(list, a=[1])",
        "[NT(1, 2), AT(1)]", "{'k0': NT(1, 3)}",
        "DC2(x=1)", "DC2(x=1, y=2)", "[DC2(x=1)]", "{'k0': 0, 'k1': 1, 'k0': 2}", "{1: 'i', True: 'b'}", "{'k0': [0], 'k0': [1], 'k1': 2}",
        "DCS(x=1)", "DCS(x=1, y=2)", "DCX(x=1)", "DCX(x=1, w=3)", "[DCS(x=1)]", "ATS(a=1)", "PMS(a=1)", "NTS(a=1, b=2)", "{'k0': DCX(x=1, y=2)}",
        "[Perm.R | Perm.W, Perm(0)]", "[1.5, -1, 2**64]", "['a\\nb', ' a ']", "{(0, 1): 'a'}", "{Color.RED: 0}",
    )]
    u = G._dedup(list(G.A_FULL) + extra)
    if tier == "thorough":
        u = G._dedup(u + G.containers(G.A_TINY, 2) + G.containers(G.A_CORE, 1))
    return u


def _cases(tier):
    U = _universe(tier)
    cases = []
    for p in U:
        rs = R.renderings(p.expr, _styles(tier))
        for v in U:
            if p.expr == v.expr:
                continue
            for st, txt in rs:
                cases.append({"p": txt, "v": v.expr, "op": "=="})
            if tier == "thorough":
                cases.append({"p": p.expr, "v": v.expr, "op": "==r"})
    for k in range(1, _blen(tier) + 1):
        for combo in itertools.product(range(len(MENU)), repeat=k):
            cases.append({"body": list(combo)})
    for i in range(len(MENU)):
        cases.append({"body": [i], "after_raise": True})
        cases.append({"body": [i], "after_raise": "repr"})
    return cases


def build(tier, seed):
    cs = _cases(tier)
    a = [c for c in cs if not c.get("after_raise")]
    b = [c for c in cs if c.get("after_raise") is True]
    b2 = [c for c in cs if c.get("after_raise") == "repr"]
    return ([{"cases": a[i : i + BATCH]} for i in range(0, len(a), BATCH)] + [{"cases": b[i : i + 4]} for i in range(0, len(b), 4)]
            + [{"cases": b2[i : i + 4]} for i in range(0, len(b2), 4)])


def _site(i, c):
    if "body" in c:
        lines = []
        for m in c["body"]:
            lines += MENU[m]
        return "def test_%d():\n" % i + "".join("    " + l + "\n" for l in lines)
    if c["op"] == "==":
        st = "assert %s == snapshot(%s)" % (c["v"], c["p"])
    else:
        st = "assert snapshot(%s) == %s" % (c["p"], c["v"])
    return "def test_%d():\n    %s\n" % (i, st)


def _exprs(c):
    if "body" in c:
        return ["DC", "defaultdict", "NT", "Color"]
    return [c["p"], c["v"]]


def _analyze(c, i, before, after, rx, ctx):
    if rx is not None:
        return ("reexec-fails", str(rx))
    return None


def _judge(cases):
    needs = ["HasRepr"] if any("Opaque" in e or "Flk" in e for c in cases for e in _exprs(c)) else []
    hdr = ""
    if any(c.get("after_raise") for c in cases):
        hdr = "from inline_snapshot import snapshot\n" + (RAISING_REPR if any(c.get("after_raise") == "repr" for c in cases) else RAISING_FIRST)
    return batch.one_file(cases, _site, _exprs, ["create", "fix"], _analyze, needs=needs, calls=False, header=hdr)


def run_case(case):
    return batch.replay(case, _judge)


def run_task(task):
    return batch.run_batched(task["cases"], _judge,
                             label=lambda c: "ok:body%d" % len(c["body"]) if "body" in c else "ok:pair",
                             key=lambda c: repr((c.get("body"), c.get("after_raise")) if "body" in c else (c["p"], c["v"], c["op"])), strict_batch=True)
