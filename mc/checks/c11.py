"""C11 - fixing a container keeps what did not change.
All ordered pairs of sequences over {0,1,2} up to a length bound (old one written with hand-made element
expressions 0+0 / 1+0 / 1+1 so regenerated text is distinguishable), as list, tuple, nested in a list and in a
dict value; all pairs of dict displays / keyword-argument calls over keys {a,b,c} x values {0,1}; fix only.
Oracle: evaluated result equals the new value; equal common prefix and suffix keep their exact text; number of
surviving hand-written elements >= LCS (independent DP); entries with surviving key and equal value keep their text.
Also: inline_snapshot._align.align is called directly on every pair (valid script, m only on equal, #m = LCS)."""
from __future__ import annotations

import ast
import itertools

from ..engine import batch
from ..models.lcs import lcs, common_prefix, common_suffix

ID = "C11"
LEVEL = "exploration"
RULE = ("every ordered pair (old, new) of sequences over {0,1,2} with length <= L (quick 4, thorough 5), old rendered with "
        "hand-written element text, as list / tuple / list nested in a list / list as dict value; every pair of key->value "
        "maps over {a,b,c}x{0,1} as dict display and as dataclass keyword call; one session with only fix approved; "
        "non-trivial = old != new and at least one element survives (LCS >= 1) so the preservation clauses are exercised; "
        "distinct = (shape, old, new)"
        "; plus local classes of alternating kinds under one name (strict batches) and defaultdict(factory, {...}) displays")
ASSUMPTIONS = ["element values are small ints; hand-written text v -> {0:'0+0', 1:'1+0', 2:'1+1'}",
               "the direct align() probe is skipped (with a note) if inline_snapshot._align no longer exists"]
BATCH = 60
HAND = {0: "0+0", 1: "1+0", 2: "1+1", 9: "8+1"}
HSET = set(HAND.values())
KEYS = ("a", "b", "c")
DC3 = ("from dataclasses import dataclass, field\nfrom collections import namedtuple\nimport attrs\n@dataclass\nclass DC3:\n    a: int = 9\n    b: int = 9\n    c: int = 9\n\n"
       "NT3 = namedtuple('NT3', 'a b c', defaults=[9, 9, 9])\n\n@dataclass\nclass DCR:\n    a: int = 9\n    b: int = field(default=9, repr=False, compare=False)\n    c: int = 9\n\n")


LOCAL_KINDS = {
    "dc": "    @dataclass\n    class Row:\n        a: int = 9\n        b: int = 9\n        c: int = 9\n",
    "nt": "    Row = namedtuple('Row', 'a b c', defaults=[9, 9, 9])\n",
    "at": "    @attrs.define\n    class Row:\n        a: int = 9\n        b: int = 9\n        c: int = 9\n",
}


def bounds(tier):
    return {"max_len": 4 if tier == "quick" else 5, "symbols": 3, "shapes": ["list", "tuple", "inlist", "indict", "dict", "kwcall"], "element_layouts": ["plain", "parenthesised: all / odd / even positions"]}


def _seqs(n):
    out = []
    for k in range(n + 1):
        out += [list(t) for t in itertools.product((0, 1, 2), repeat=k)]
    return out


def _maps():
    out = []
    for combo in itertools.product((None, 0, 1), repeat=3):
        out.append({k: v for k, v in zip(KEYS, combo) if v is not None})
    return out


def _cases(tier):
    L = 4 if tier == "quick" else 5
    S = _seqs(L)
    cases = [{"sh": "list", "old": o, "new": n} for o in S for n in S]
    S3 = _seqs(3 if tier == "quick" else 4)
    for sh in ("tuple", "inlist", "indict"):
        cases += [{"sh": sh, "old": o, "new": n} for o in S3 for n in S3]
    MD = []
    for combo in itertools.product((None, 0, 9), repeat=3):
        MD.append({k: v for k, v in zip(KEYS, combo) if v is not None})
    for sh in ("kwcall", "ntcall", "dcrcall"):
        for o in MD:
            for n in MD:
                if 9 in o.values() or 9 in n.values():
                    cases.append({"sh": sh, "old": o, "new": n})
    for sh in ("uniinlist", "unidict", "hrlist", "hrdict"):
        cases += [{"sh": sh, "old": o, "new": n} for o in S3 for n in S3]
    cases += [{"sh": sh, "old": o, "new": n, "weird": True} for sh in ("list", "indict") for o in S3 for n in S3 if o]
    # the same with hand-written parentheses around element expressions (all / every second element)
    for par in ("ml", "mlodd"):
        for sh in ("list", "indict", "dict"):
            src = S3 if sh != "dict" else _maps()
            cases += [{"sh": sh, "old": o, "new": n, "par": par} for o in src for n in src if o]
    for par in ("all", "odd", "even"):
        for sh in ("list", "tuple", "indict"):
            cases += [{"sh": sh, "old": o, "new": n, "par": par} for o in S3 for n in S3 if o]
        for sh in ("dict", "kwcall"):
            cases += [{"sh": sh, "old": o, "new": n, "par": par} for o in _maps() for n in _maps() if o]
    M = _maps()
    # a class defined inside the test under one name, of a different kind from site to site (dataclass, namedtuple, attrs)
    for o in M:
        for n in M:
            if o:
                for kind in LOCAL_KINDS:
                    cases.append({"sh": "localcall", "old": o, "new": n, "kind": kind})
    for sh in ("dict", "kwcall", "ddict", "ddictin"):
        for o in M:
            for n in M:
                cases.append({"sh": sh, "old": o, "new": n})
                if len(n) > 1:
                    cases.append({"sh": sh, "old": o, "new": n, "rev": True})
    return cases


def build(tier, seed):
    cs = _cases(tier)
    tasks = [{"cases": cs[i : i + BATCH]} for i in range(0, len(cs), BATCH)]
    pc = [{"sh": sh, "old": o, "new": n, "flags": f, "ans": a} for sh, o, n in PLUGIN_PAIRS for f, a in PLUGIN_CFGS]
    for i in range(0, len(pc), 5):
        tasks.append({"plugin": pc[i : i + 5]})
    S = _seqs(4 if tier == "quick" else 5)
    for i in range(0, len(S), 8):
        tasks.append({"align": S[i : i + 8], "all": len(S), "L": 4 if tier == "quick" else 5})
    return tasks


def _par(c, i, t):
    """Hand-written parentheses around an element expression (they are not part of the element's syntax node)."""
    m = c.get("par")
    if m == "all" or (m == "odd" and i % 2 == 1) or (m == "even" and i % 2 == 0):
        return "(" + t + ")"
    if m == "ml" or (m == "mlodd" and i % 2 == 1):
        # the parentheses on lines of their own, a comment inside (the way a long implicit concatenation is wrapped by hand)
        return "(\n        " + t + "  # kept\n    )"
    return t


def _seq_text(vals, sh, c=None):
    items = [_par(c or {}, i, HAND[v]) for i, v in enumerate(vals)]
    if sh == "tuple":
        return "(" + ", ".join(items) + ("," if len(items) == 1 else "") + ")"
    return "[" + ", ".join(items) + "]"


def _old_text(c):
    sh = c["sh"]
    if sh in ("list", "tuple"):
        return _seq_text(c["old"], sh, c)
    if sh == "hrlist":
        return "[HasRepr(Strict, '<Strict %%d>' %% 1), %s, 8]" % _seq_text(c["old"], "list", c)
    if sh == "hrdict":
        return "{'h': HasRepr(Strict, '<Strict %%d>' %% 1), 'k': %s}" % _seq_text(c["old"], "list", c)
    if sh == "inlist":
        return "[7, %s, 8]" % _seq_text(c["old"], "list", c)
    if sh == "uniinlist":
        return "['\xe4\xf6\xfc\U0001f40d', %s, 8]" % _seq_text(c["old"], "list", c)
    if sh == "unidict":
        return "{'gr\xfc\xdfe\U0001f40d': %s, 'z': 7}" % _seq_text(c["old"], "list", c)
    if sh == "indict":
        return "{'k': %s, 'z': 7}" % _seq_text(c["old"], "list", c)
    if sh in ("dict", "ddict", "ddictin"):
        t = "{" + ", ".join("%r: %s" % (k, _par(c, i, HAND[v])) for i, (k, v) in enumerate(c["old"].items())) + "}"
        return {"dict": "%s", "ddict": "defaultdict(int, %s)", "ddictin": "[7, defaultdict(int, %s)]"}[sh] % t
    if sh in ("kwcall", "ntcall", "dcrcall", "localcall"):
        return {"kwcall": "DC3", "ntcall": "NT3", "dcrcall": "DCR", "localcall": "Row"}[sh] + "(" + ", ".join("%s=%s" % (k, _par(c, i, HAND[v])) for i, (k, v) in enumerate(c["old"].items())) + ")"


def _new_expr(c):
    sh = c["sh"]
    n = c["new"]
    if sh == "list":
        return repr(list(n))
    if sh == "tuple":
        return repr(tuple(n))
    if sh == "hrlist":
        return "[Strict(1), %r, 8]" % list(n)
    if sh == "hrdict":
        return "{'h': Strict(1), 'k': %r}" % list(n)
    if sh == "inlist":
        return repr([7, list(n), 8])
    if sh == "uniinlist":
        return repr(["\xe4\xf6\xfc\U0001f40d", list(n), 8])
    if sh == "unidict":
        return repr({"gr\xfc\xdfe\U0001f40d": list(n), "z": 7})
    if sh == "indict":
        return repr({"k": list(n), "z": 7})
    items = list(n.items())
    if c.get("rev"):
        items = items[::-1]
    if sh in ("dict", "ddict", "ddictin"):
        t = "{" + ", ".join("%r: %r" % kv for kv in items) + "}"
        return {"dict": "%s", "ddict": "defaultdict(int, %s)", "ddictin": "[7, defaultdict(int, %s)]"}[sh] % t
    return {"kwcall": "DC3", "ntcall": "NT3", "dcrcall": "DCR", "localcall": "Row"}.get(sh, "DC3") + "(" + ", ".join("%s=%r" % kv for kv in items) + ")"


def _site(i, c):
    if c["sh"] == "localcall":
        return "def test_%d():\n%s    assert %s == snapshot(%s)\n" % (i, LOCAL_KINDS[c["kind"]], _new_expr(c), _old_text(c))
    if c["sh"] in ("hrlist", "hrdict"):
        # Strict.__eq__ answers False for foreign types: the stand-in has to be the left operand (also when re-executed plainly)
        return "def test_%d():\n    assert snapshot(%s) == %s\n" % (i, _old_text(c), _new_expr(c))
    return "def test_%d():\n    assert %s == snapshot(%s)\n" % (i, _new_expr(c), _old_text(c))


def _elts(node, sh):
    if sh in ("list", "tuple"):
        return node.elts
    if sh in ("inlist", "uniinlist", "hrlist"):
        return node.elts[1].elts
    if sh == "hrdict":
        return node.values[1].elts
    if sh in ("indict", "unidict"):
        return node.values[0].elts


def _analyze(c, i, before, after, rx, ctx):
    from ..oracles.locate import Loc

    if rx is not None:
        return ("result-not-equal-new", "snapshot(%s): %s" % (after["arg_text"][:200], rx))
    sh = c["sh"]
    text = after["arg_text"]
    try:
        loc = Loc(text.strip())
        node = loc.tree.body[0].value
    except Exception as e:  # noqa
        return ("unparsable-argument", "%r: %s" % (text[:200], e))
    if sh in ("dict", "kwcall", "ntcall", "dcrcall", "localcall", "ddict", "ddictin"):
        if sh in ("ddict", "ddictin"):
            try:
                node = node.elts[1] if sh == "ddictin" else node
                assert isinstance(node, ast.Call) and node.func.id == "defaultdict"
                node = node.args[1] if len(node.args) > 1 else ast.Dict(keys=[], values=[])
            except Exception:
                return ("shape-lost", text[:200])
        if sh in ("dict", "ddict", "ddictin"):
            if not isinstance(node, ast.Dict):
                return ("shape-lost", text[:200])
            pairs = [(ast.literal_eval(k), loc.seg(v)) for k, v in zip(node.keys, node.values)]
        else:
            if not isinstance(node, ast.Call):
                return ("shape-lost", text[:200])
            pairs = [(k.arg, loc.seg(k.value)) for k in node.keywords]
        got = dict(pairs)
        for k, v in c["old"].items():
            newv = c["new"].get(k, 9 if sh not in ("dict", "ddict", "ddictin") else None)
            if sh == "dcrcall" and k == "b":
                continue  # a repr=False field never round-trips through the generated code
            if newv == v:
                if got.get(k) != HAND[v]:
                    return ("equal-entry-rewritten", "key %r had %s, now %r in %s" % (k, HAND[v], got.get(k), text[:200]))
        return None
    try:
        elts = _elts(node, sh)
    except Exception as e:  # noqa
        return ("shape-lost", "%s: %s" % (text[:200], e))
    if sh in ("hrlist", "hrdict") and "HasRepr(Strict, '<Strict %d>' % 1)" not in text:
        return ("equal-entry-rewritten", "the HasRepr entry compares equal to the observed object, its text is gone: %s" % text[:200])
    texts = [loc.seg(e) for e in elts]
    old, new = c["old"], c["new"]
    if len(texts) != len(new):
        return ("result-not-equal-new", "%d elements, expected %d: %s" % (len(texts), len(new), text[:200]))
    p = common_prefix(old, new)
    s = common_suffix(old, new, p)
    for j in range(p):
        if texts[j] != HAND[old[j]]:
            return ("prefix-element-rewritten", "element %d of equal prefix is %r in %s" % (j, texts[j], text[:200]))
    for j in range(s):
        if texts[len(texts) - 1 - j] != HAND[old[len(old) - 1 - j]]:
            return ("suffix-element-rewritten", "element -%d of equal suffix is %r in %s" % (j + 1, texts[len(texts) - 1 - j], text[:200]))
    surv = sum(1 for t, v in zip(texts, new) if t == HAND[v])
    need = lcs(old, new)
    if surv < need:
        return ("fewer-survivors-than-lcs", "%d hand-written elements survive, LCS=%d: %s -> %s" % (surv, need, _old_text(c), text[:200]))
    return None


WEIRD = "W1 = 'u2028:\u2028 u2029:\u2029 x85:\x85 x1c:\x1c'  # \x0b vt\n\x0c\nW2 = 1\n\x0c\n"


def _judge(cases):
    hdr = DC3 if any(c["sh"] in ("kwcall", "ntcall", "dcrcall", "localcall") for c in cases) else ""
    if any(c["sh"] in ("hrlist", "hrdict") for c in cases):
        hdr = ("from inline_snapshot import HasRepr\n\n\nclass Strict:\n    def __init__(self, n):\n        self.n = n\n\n    def __repr__(self):\n        return '<Strict %d>' % self.n\n\n"
               "    def __eq__(self, other):\n        if not isinstance(other, Strict):\n            return False\n        return self.n == other.n\n\n\n") + hdr
    if any(c["sh"] in ("ddict", "ddictin") for c in cases):
        hdr = "from collections import defaultdict\n" + hdr
    if any(c.get("weird") for c in cases):
        # characters that str.splitlines() treats as line ends but the Python tokenizer does not, above every call of the module
        hdr = "from inline_snapshot import snapshot\n" + WEIRD + hdr
    return batch.one_file(cases, _site, lambda c: [], ["fix"], _analyze, header=hdr)


def _align_probe(olds, L):
    out = {"n": 0, "nontrivial": [], "outcomes": {}, "violations": [], "samples": [], "notes": []}
    try:
        from inline_snapshot._align import align
    except Exception as e:  # noqa
        out["notes"].append("align probe skipped: %s" % e)
        return out
    for old in olds:
        for new in _seqs(L):
            out["n"] += 1
            case = {"align": [old, new]}
            v = _check_align(align, old, new)
            if v:
                out["violations"].append({"case": case, "what": v[0], "detail": v[1]})
                out["outcomes"]["viol:" + v[0]] = out["outcomes"].get("viol:" + v[0], 0) + 1
            else:
                if old != new and lcs(old, new):
                    out["nontrivial"].append("align|%s|%s" % (old, new))
                out["outcomes"]["ok:align"] = out["outcomes"].get("ok:align", 0) + 1
    out["samples"].append({"align": [olds[-1], [2, 1]], "script": align(olds[-1], [2, 1])})
    return out


def _check_align(align, old, new):
    try:
        sc = align(list(old), list(new))
    except Exception as e:  # noqa
        return ("align-raised", "%s: %s" % (type(e).__name__, e))
    i = j = 0
    res = []
    m = 0
    for ch in sc:
        if ch == "m":
            if i >= len(old) or j >= len(new) or old[i] != new[j]:
                return ("align-matches-unequal", "%s %s -> %s" % (old, new, sc))
            res.append(old[i]); i += 1; j += 1; m += 1
        elif ch == "d":
            i += 1
        elif ch == "i":
            if j >= len(new):
                return ("align-invalid-script", "%s %s -> %s" % (old, new, sc))
            res.append(new[j]); j += 1
        else:
            return ("align-invalid-script", "%s %s -> %s" % (old, new, sc))
    if i != len(old) or j != len(new) or res != list(new):
        return ("align-invalid-script", "%s %s -> %s" % (old, new, sc))
    if m != lcs(old, new):
        return ("align-not-maximal", "%s %s -> %s has %d matches, LCS=%d" % (old, new, sc, m, lcs(old, new)))
    return None


PLUGIN_PAIRS = [("list", [0, 1, 2], [0, 2, 2]), ("list", [0, 1], [0, 1, 2]), ("list", [0, 1, 2, 1], [1, 2, 1]), ("tuple", [0, 1], [1]),
                ("inlist", [0, 1, 2], [0, 9 % 3, 2]), ("indict", [1, 1, 0], [1, 0]), ("dict", {"a": 0, "b": 1}, {"a": 0, "b": 0, "c": 1}),
                ("kwcall", {"a": 0, "b": 1, "c": 1}, {"a": 0, "c": 0}), ("list", [2, 0, 1], [0, 1, 2])]
PLUGIN_CFGS = [(["fix"], None), (["fix", "report"], None), (["review"], "yn"), (["review"], "y"), (["short-report", "fix"], None),
               (["fix", "review"], "n"), (["fix", "trim", "create"], None)]


def _plugin_case(c):
    """Real sessions in which update is shown / asked but not approved: equal elements must still keep their text."""
    from ..drivers import plugin
    from ..oracles.locate import snapshot_calls
    from ..drivers.inline import reexec

    case = {"sh": c["sh"], "old": c["old"], "new": c["new"]}
    src = (DC3 if c["sh"] in ("kwcall", "ntcall", "dcrcall") else "") + "from inline_snapshot import snapshot\n\n\n" + _site(0, case)
    d = plugin.mk_project({"test_something.py": src, "pyproject.toml": ""})
    try:
        stdin = None if c["ans"] is None else ("\n".join(c["ans"]) + "\n").encode() + b"n\n" * 4
        r = plugin.session(d, ["--inline-snapshot=" + ",".join(c["flags"])], stdin=stdin)
        after = plugin.listing(d, text=True)["test_something.py"]
    finally:
        plugin.cleanup()
    if plugin.internal_error(r["out"]) or r["rc"] not in (0, 1):
        return ("internal-error", r["out"][-600:])
    if "short-report" in c["flags"]:
        return None if after == src else ("written-under-short-report", after[-300:])
    call = snapshot_calls(after, toplevel_only=True)[0]
    rx = reexec({"test_something.py": after})["test_something.py"]
    t = rx["tests"].get("test_0", "missing") if not rx["module_error"] else rx["module_error"]
    v = _analyze(case, 0, None, call, t, {})
    if v is None and ("+0" not in call["arg_text"] and "1+1" not in call["arg_text"]) and any(
            (x in c["new"]) if isinstance(c["old"], list) else (c["new"].get(x) == y) for x, y in (c["old"].items() if isinstance(c["old"], dict) else [(e, e) for e in c["old"]])):
        v = ("unapproved-update-applied", "no hand-written element text left: %s" % call["arg_text"][:200])
    return (v[0], v[1] + "\n--- output ---\n" + r["out"][-500:]) if v else None


def run_case(case):
    if "flags" in case:
        v = _plugin_case(case)
        return [{"case": case, "what": v[0], "detail": v[1]}] if v else []
    if "align" in case:
        from inline_snapshot._align import align

        v = _check_align(align, *case["align"])
        return [{"case": case, "what": v[0], "detail": v[1]}] if v else []
    return batch.replay(case, _judge)


def run_task(task):
    if "plugin" in task:
        out = {"n": 0, "nontrivial": [], "outcomes": {}, "violations": [], "samples": []}
        for c in task["plugin"]:
            out["n"] += 1
            vs = run_case(c)
            out["violations"] += vs
            lab = "viol:" + vs[0]["what"] if vs else "ok:plugin"
            if not vs:
                out["nontrivial"].append("plugin" + repr(sorted(c.items(), key=str)))
            out["outcomes"][lab] = out["outcomes"].get(lab, 0) + 1
        out["samples"].append({"plugin_case": task["plugin"][0]})
        return out
    if "align" in task:
        return _align_probe(task["align"], task["L"])
    r = batch.run_batched(task["cases"], _judge, label=lambda c: "ok:" + c["sh"], strict_batch=True,
                          key=lambda c: repr((c["sh"], c["old"], c["new"], c.get("rev"), c.get("par"), c.get("weird"), c.get("kind"))))
    # non-trivial only if something had to change and something had to survive
    keep = []
    for c in task["cases"]:
        if c["old"] != c["new"]:
            if isinstance(c["old"], list):
                if lcs(c["old"], c["new"]):
                    keep.append(repr((c["sh"], c["old"], c["new"], c.get("rev"), c.get("par"), c.get("weird"), c.get("kind"))))
            elif any(c["new"].get(k, 9) == v for k, v in c["old"].items()):
                keep.append(repr((c["sh"], c["old"], c["new"], c.get("rev"), c.get("par"), c.get("weird"), c.get("kind"))))
    r["nontrivial"] = [k for k in r["nontrivial"] if k in set(keep)]
    return r
