"""C15 - faults while rewriting never leave a half-written file or a dangling external.
Fault enumeration: a recording run of a multi-file change set (two files gain externals) counts the calls made during
pytest_sessionfinish at seven library / stdlib boundaries; then one real session per (boundary, call index, fault kind).
Oracle: every test file is its old bytes or a complete new content (same syntax tree as the fault-free result), never
empty / truncated / unparsable; a formatter fault is reported as a problem; every external(...) referenced by a test
file resolves to exactly one persisted file - also after a following plain session (which prunes -new files)."""
from __future__ import annotations

import ast
import json
import re

from ..drivers import faults

ID = "C15"
LEVEL = "fault_enumeration"
RULE = ("configurations {black, format-command=cat} x change sets of 1, 2, 3 files (quick: 3 files; two gain externals) -> recording "
        "run counts calls of black.format_str / subprocess.run / tokenize.generate_tokens / Path.read_text / Path.rename / "
        "open('bw') / file.write after the start of pytest_sessionfinish; then every (boundary, call index) x every fault kind of "
        "that boundary (raise, process exit before/after/mid-call, non-zero exit, unparsable / truncated / non-UTF-8 formatter "
        "output) is one real session followed by one plain session; thorough adds pairs of faults whose first one is survivable; "
        "non-trivial = the fault really fired; distinct = (config, files, boundary, index, kind)")
ASSUMPTIONS = ["boundaries are library/stdlib seams patched inside the harness's own child process: no hook in /repo",
               "'complete new content' is compared by syntax tree: after a formatter fault the layout may differ"]
TASK_TIMEOUT = 1200


def project(nfiles, fmt, mode=None):
    import hashlib

    files = {
        "test_a.py": "from inline_snapshot import snapshot, outsource\n\n\ndef test_a():\n    assert outsource('data-a') == snapshot()\n    assert [1, 2] == snapshot([1])\n",
        "test_b.py": "from inline_snapshot import snapshot\n\n\ndef test_b():\n    assert 'b' == snapshot('x')\n    assert 5 == snapshot()\n",
        "test_c.py": "from inline_snapshot import snapshot, outsource\n\n\ndef test_c():\n    assert {'k': outsource('data-c')} == snapshot({'k': 0})\n",
    }
    files = dict(list(files.items())[:nfiles]) if nfiles < 3 else files
    if nfiles == 2:
        files = {"test_a.py": files["test_a.py"], "test_b.py": files["test_b.py"]}
    files["pyproject.toml"] = '[tool.inline-snapshot]\nformat-command="cat"\n' if fmt == "cmd" else ""
    if mode == "suffix":
        # the same bytes outsourced under two suffixes, in two files
        files["test_c.py"] = files["test_c.py"].replace("outsource('data-c')", "outsource(b'data-a')")
    if mode == "suffix1":
        # the same bytes under two (three) suffixes in one file, and once more in another file
        files["test_a.py"] = files["test_a.py"].replace("    assert [1, 2] == snapshot([1])\n", "    assert [1, outsource(b'data-a'), outsource('data-a', suffix='.log')] == snapshot([1])\n")
        if "test_c.py" in files:
            files["test_c.py"] = files["test_c.py"].replace("outsource('data-c')", "outsource('data-a', suffix='.log')")
    if mode == "clean":
        # formatter-clean files: the whole file goes through the formatter once more when it is written
        import black

        for k in list(files):
            if k.endswith(".py"):
                files[k] = black.format_str(files[k], mode=black.Mode())
    if mode == "trim":
        # an unchanged file that references a persisted external, and an unreferenced persisted external: with trim
        # approved the second may go, the first must stay whatever fails on the way
        hd, hu = hashlib.sha256(b"data-d").hexdigest(), hashlib.sha256(b"unused").hexdigest()
        files["test_d.py"] = ("from inline_snapshot import snapshot, outsource, external\n\n\ndef test_d():\n"
                              "    assert outsource('data-d') == snapshot(external(\"%s*.txt\"))\n" % hd[:12])
        files[".inline-snapshot/external/%s.txt" % hd] = "data-d"
        files[".inline-snapshot/external/%s.txt" % hu] = "unused"
    return files


def bounds(tier):
    return {"modes": ["create,fix", "create,fix,trim with a referenced and an unreferenced persisted external", "create,fix on formatter-clean files"], "configs": ["black", "cmd"], "files": [3] if tier == "quick" else [1, 2, 3], "kinds": faults.KINDS, "fault_pairs": "none" if tier == "quick" else "survivable formatter fault x later fault at open/write/rename/formatter boundaries (3-file change set)"}


def _run(files, target, second=True, flags="create,fix"):
    """Session with an optional fault, then a plain session. Returns dict."""
    from ..drivers import plugin

    d = plugin.mk_project(files)
    try:
        r = plugin.session(d, ["--inline-snapshot=" + flags], preexec=faults.make(target), timeout=120)
        s1 = plugin.listing(d)
        counts = None
        if ".counts.json" in s1:
            counts = json.loads(s1.pop(".counts.json"))
        fired = bool(counts and counts.get("fired")) or ".fired" in s1
        s1.pop(".fired", None)
        r2 = s2 = None
        if second:
            for junk in (".counts.json", ".fired"):
                try:
                    import os

                    os.unlink(d + "/" + junk)
                except OSError:
                    pass
            r2 = plugin.session(d, [])
            s2 = plugin.listing(d)
            s2.pop(".counts.json", None)
    finally:
        plugin.cleanup()
    return {"r": r, "s1": s1, "r2": r2, "s2": s2, "counts": counts, "fired": fired}


_EXT = re.compile(r"external\(\"([0-9a-f]+\*?\.[a-z]+)\"\)")


def _check_state(state, old, new_ast, label, prefix_of=None):
    """Returns (what, detail) or None for one directory state.
    prefix_of (residual test of the known finding 'non-atomic-write'): name -> complete new bytes; a file that is a
    prefix of its complete new content is then accepted."""
    import fnmatch

    store = [k.rsplit("/", 1)[1] for k in state if k.startswith(".inline-snapshot/external/") and not k.endswith(".gitignore")]
    for name, oldtext in old.items():
        if not name.endswith(".py"):
            continue
        cur = state.get(name)
        if cur is None:
            return ("test-file-missing", "%s %s" % (label, name))
        if cur == oldtext.encode():
            pass
        elif prefix_of is not None and prefix_of[name].startswith(cur):
            continue
        else:
            try:
                txt = cur.decode("utf-8")
                tree = ast.dump(ast.parse(txt))
            except Exception as e:  # noqa
                return ("half-written-test-file", "%s %s is neither old nor parsable (%s): %r" % (label, name, type(e).__name__, cur[:160]))
            if tree != new_ast[name]:
                return ("test-file-neither-old-nor-complete-new", "%s %s: %r" % (label, name, txt[-300:]))
        for ref in _EXT.findall(state[name].decode("utf-8", "replace")):
            pat = ref if "*" in ref else ref.replace(".", "*.", 1)
            match = [s for s in store if fnmatch.fnmatchcase(s, pat) and "-new." not in s]
            if len(match) != 1:
                return ("dangling-external-reference", "%s %s references %s, persisted matches: %s, storage: %s" % (label, name, ref, match, [s[:8] + s[64:] for s in store]))
    return None


def _flags(case):
    return "create,fix,trim" if case.get("mode") == "trim" else "create,fix"


def run_case(case):
    if "unencodable" in case:
        v = _unencodable_case(case["unencodable"], case["order"])
        return [{"case": case, "what": v[0], "detail": v[1]}] if v else []
    if "locale" in case:
        v = _locale_case(case["locale"])
        return [{"case": case, "what": v[0], "detail": v[1]}] if v else []
    files = project(case["nfiles"], case["fmt"], case.get("mode"))
    base = _run(files, None, second=False, flags=_flags(case))
    new_ast = {}
    new_bytes = {}
    for k, v in base["s1"].items():
        if k.endswith(".py"):
            new_ast[k] = ast.dump(ast.parse(v.decode("utf-8")))
            new_bytes[k] = v
    return _judge(case, files, new_ast, new_bytes)


def _judge(case, files, new_ast, new_bytes=None):
    from ..drivers import plugin

    res = _run(files, case["target"], flags=_flags(case))
    viol = []
    r = res["r"]
    if not res["fired"]:
        return [{"case": case, "what": "harness-fault-did-not-fire", "detail": "counts %s" % res["counts"]}]
    pair = not isinstance(case["target"][0], str)
    last = case["target"][-1] if pair else case["target"]
    kind = last[2]
    v = _check_state(res["s1"], files, new_ast, "after the faulty session:")
    if v is None and res["s2"] is not None:
        v = _check_state(res["s2"], files, new_ast, "after the following plain session:")
    if v is None and not pair and case["target"][0] in ("format_str", "sp_run") and kind in ("raise", "nonzero", "killed"):
        # a formatter crash / non-zero exit must degrade to a reported problem, not to an aborted finish phase
        if "Problems" not in r["out"] and "INTERNALERROR" not in r["out"] and "Traceback" not in r["out"]:
            v = ("formatter-fault-not-reported", r["out"][-400:])
        elif "INTERNALERROR" in r["out"] or "Traceback (most recent call last)" in r["out"]:
            if kind in ("nonzero", "killed") or (case["target"][0] == "format_str" and kind == "raise"):
                v = ("formatter-fault-aborts-session-finish", r["out"][-500:])
    if v:
        sig = None
        if (last[0] in ("open_bw", "write") and kind in ("exit_after", "raise", "exit_mid")
                and v[0] in ("half-written-test-file", "test-file-neither-old-nor-complete-new") and new_bytes):
            # residual test: the only defect is a truncated (prefix of the complete new content) file
            if _check_state(res["s1"], files, new_ast, "", prefix_of=new_bytes) is None and (
                    res["s2"] is None or _check_state(res["s2"], files, new_ast, "", prefix_of=new_bytes) is None):
                sig = "non-atomic-write"
        viol.append({"case": case, "what": v[0], "detail": v[1] + " | rc=%s | %s" % (r["rc"], r["out"][-300:].replace("\n", "\\n")), "sig": sig})
    return viol


def explore(tier, seed, runner):
    done = []
    combos = [(3, "black", None), (3, "cmd", None), (3, "black", "trim"), (3, "black", "clean"), (3, "black", "suffix"), (3, "black", "suffix1"), (1, "black", "suffix1")] if tier == "quick" else (
        [(n, f, None) for n in (1, 2, 3) for f in ("black", "cmd")] + [(3, "black", "trim"), (3, "cmd", "trim"), (1, "black", "trim"), (3, "black", "clean"), (1, "black", "clean"), (3, "black", "suffix"), (3, "cmd", "suffix"), (3, "black", "suffix1"), (1, "black", "suffix1"), (3, "cmd", "suffix1")])
    rec_tasks = [{"record": {"nfiles": n, "fmt": f, "mode": m}} for n, f, m in combos]
    recs = runner(rec_tasks)
    tasks = []
    for t, r in zip(rec_tasks, recs):
        done.append((t, r))
        if not (r and r[0] == "ok" and r[1].get("counts")):
            continue
        counts = r[1].pop("counts")
        new_ast = r[1].pop("new_ast")
        new_bytes = r[1].pop("new_bytes")
        cases = []
        for b, n in sorted(counts.items()):
            for i in range(n):
                for k in faults.KINDS[b]:
                    cases.append({"nfiles": t["record"]["nfiles"], "fmt": t["record"]["fmt"], "mode": t["record"]["mode"], "target": [b, i, k]})
        if tier == "thorough" and t["record"]["nfiles"] == 3 and not t["record"]["mode"]:
            # pairs: a survivable formatter fault followed by any fault at a later write-path boundary
            first = [c["target"] for c in cases if (c["target"][0], c["target"][2]) in (("format_str", "raise"), ("sp_run", "nonzero"), ("sp_run", "killed"), ("sp_run", "garbage"))]
            second = [c["target"] for c in cases if c["target"][0] in ("open_bw", "write", "rename", "format_str", "sp_run")]
            for a in first:
                for b2 in second:
                    if (a[0], a[1]) != (b2[0], b2[1]) and (b2[0] != a[0] or b2[1] > a[1]):
                        cases.append({"nfiles": 3, "fmt": t["record"]["fmt"], "target": [a, b2]})
        for i in range(0, len(cases), 6):
            tasks.append({"cases": cases[i : i + 6], "new_ast": new_ast, "new_bytes": new_bytes})
    tasks += [{"locale": f} for f in ("black", "cmd")]
    tasks += [{"unencodable": e, "order": o} for e in ("latin-1", "ascii", "cp1252") for o in ("first", "last")]
    for t, r in zip(tasks, runner(tasks)):
        t = {"cases": t["cases"]} if "cases" in t else t
        done.append((t, r))
    return done


def _locale_case(fmt):
    """No injected fault, but an environment in which writing text with the default encoding fails: a cold interpreter whose
    locale encoding is ASCII, files that hold non-ASCII text.  The write step must not leave a truncated file."""
    from ..drivers import plugin

    files = project(3, fmt)
    for k in list(files):
        if k.endswith(".py"):
            files[k] = "# caf\xe9 \u20ac \U0001f40d\n" + files[k].replace("'b' == snapshot('x')", "'\xfc\u20ac' == snapshot('x')")
    d = plugin.mk_project(files)
    try:
        r = plugin.cold_session(d, ["--inline-snapshot=create,fix"], env={"LC_ALL": "C", "LANG": "C", "PYTHONUTF8": "0", "PYTHONCOERCECLOCALE": "0", "PYTHONIOENCODING": "utf-8"})
        s1 = plugin.listing(d)
        r2 = plugin.cold_session(d, [])
        s2 = plugin.listing(d)
    finally:
        plugin.cleanup()
    for label, st in (("after the session in the ASCII locale:", s1), ("after the following plain session:", s2)):
        for name, old in files.items():
            if not name.endswith(".py"):
                continue
            cur = st.get(name)
            if cur == old.encode("utf-8"):
                return ("approved-changes-not-written", "%s %s unchanged | %s" % (label, name, r["out"][-300:]))
            try:
                ast.parse(cur.decode("utf-8"))
            except Exception as e:  # noqa
                return ("half-written-test-file", "%s %s is neither old nor parsable UTF-8 (%s): %r | %s" % (label, name, type(e).__name__, cur[:120], r["out"][-300:]))
    if r2["rc"] != 0:
        return ("plain-session-fails-afterwards", r2["out"][-400:])
    return None


def _unencodable_case(enc, order):
    """A file with a coding cookie gets a value that its encoding cannot hold: an internal error for that one file.
    Every file must be its old bytes or a complete new content in its own encoding."""
    from ..drivers import plugin

    cookie = "# -*- coding: %s -*-\n" % enc
    bad = cookie + "from inline_snapshot import snapshot\n\n\ndef test_e():\n    assert chr(0x20AC) + chr(0x4E2D) == snapshot('x')\n    assert 1 == snapshot()\n"
    good = "from inline_snapshot import snapshot\n\n\ndef test_g():\n    assert [1, 2] == snapshot([1])\n"
    names = ("test_a.py", "test_b.py") if order == "first" else ("test_b.py", "test_a.py")
    files = {names[0]: bad.encode(enc), names[1]: good.encode(), "pyproject.toml": b""}
    d = plugin.mk_project(files)
    try:
        r = plugin.session(d, ["--inline-snapshot=create,fix"])
        s1 = plugin.listing(d)
        r2 = plugin.session(d, [])
        s2 = plugin.listing(d)
    finally:
        plugin.cleanup()
    for label, st in (("after the session:", s1), ("after the following plain session:", s2)):
        for name, codec in ((names[0], enc), (names[1], "utf-8")):
            cur = st.get(name)
            if cur == files[name]:
                continue
            if name == names[0]:
                # a complete new content of this file cannot be expressed in its encoding: anything but the old bytes is damage
                return ("half-written-test-file", "%s %s is not its old content any more (%d bytes): %r | %s" % (label, name, len(cur), cur[:120], r["out"][-300:]))
            try:
                ast.parse(cur.decode(codec))
            except Exception as e:  # noqa
                return ("half-written-test-file", "%s %s is neither its old content nor parsable in %s (%s): %r | %s" % (label, name, codec, type(e).__name__, cur[:120], r["out"][-300:]))
            if b"snapshot()" in cur or (name == names[1] and b"[1, 2]" not in cur.split(b"snapshot(")[-1]):
                return ("test-file-neither-old-nor-complete-new", "%s %s: %r" % (label, name, cur[-200:]))
    return None


def run_task(task):
    out = {"n": 0, "nontrivial": [], "outcomes": {}, "violations": [], "samples": []}
    if "unencodable" in task:
        v = _unencodable_case(task["unencodable"], task["order"])
        out["n"] = 1
        if v:
            out["violations"].append({"case": {"unencodable": task["unencodable"], "order": task["order"]}, "what": v[0], "detail": v[1]})
        else:
            out["nontrivial"].append("unencodable:%s:%s" % (task["unencodable"], task["order"]))
        out["outcomes"]["viol:" + v[0] if v else "ok:unencodable:" + task["unencodable"]] = 1
        return out
    if "locale" in task:
        v = _locale_case(task["locale"])
        out["n"] = 1
        if v:
            out["violations"].append({"case": {"locale": task["locale"]}, "what": v[0], "detail": v[1]})
        else:
            out["nontrivial"].append("locale:" + task["locale"])
        out["outcomes"]["viol:" + v[0] if v else "ok:ascii-locale:" + task["locale"]] = 1
        return out
    if "record" in task:
        c = task["record"]
        files = project(c["nfiles"], c["fmt"], c.get("mode"))
        base = _run(files, None, second=True, flags=_flags(c))
        out["n"] = 1
        if not base["counts"]:
            out["violations"].append({"case": task, "what": "harness-recording-failed", "detail": base["r"]["out"][-800:]})
            return out
        new_ast = {k: ast.dump(ast.parse(v.decode("utf-8"))) for k, v in base["s1"].items() if k.endswith(".py")}
        v = _check_state(base["s1"], files, new_ast, "fault-free session:") or _check_state(base["s2"], files, new_ast, "after the plain session:")
        changed = [k for k in files if k.endswith(".py") and base["s1"].get(k) != files[k].encode()]
        if v or len(changed) != c["nfiles"]:
            out["violations"].append({"case": task, "what": "fault-free-run-inconsistent", "detail": "%s changed=%s" % (v, changed)})
        out["counts"] = base["counts"]["counts"]
        out["new_ast"] = new_ast
        out["new_bytes"] = {k: v for k, v in base["s1"].items() if k.endswith(".py")}
        out["outcomes"]["recording:%s:%d:%s" % (c["fmt"], c["nfiles"], c.get("mode"))] = 1
        out["samples"].append({"config": c, "boundary_calls_during_sessionfinish": base["counts"]["counts"]})
        return out
    for case in task["cases"]:
        files = project(case["nfiles"], case["fmt"], case.get("mode"))
        vs = _judge(case, files, task["new_ast"], task.get("new_bytes"))
        out["n"] += 1
        tg = case["target"]
        lab = "ok:pair:%s:%s" % (tg[1][0], tg[1][2]) if not isinstance(tg[0], str) else "ok:%s:%s" % (tg[0], tg[2])
        if vs:
            out["violations"] += vs
            lab = "viol:" + vs[0]["what"]
        else:
            out["nontrivial"].append(json.dumps(case))
        out["outcomes"][lab] = out["outcomes"].get(lab, 0) + 1
    out["samples"].append({"fault": task["cases"][0]})
    return out
