"""C07 - a wrong or missing snapshot never yields a green run.
Every point is a real pytest session (forked pytest.main): program shapes x position of the one bad site x
operation x flag configuration; the generator knows which tests execute a bad site."""
from __future__ import annotations

import itertools

ID = "C07"
LEVEL = "exploration"
RULE = ("programs = {single site, 3 sites in one test with the bad one first/middle/last, 3 tests with one bad} x operation x "
        "site kind {good, slack, wrong, empty, wrong-key, loop-bad, loop-good} x flag configuration (all 16 category subsets, "
        "plus report / review all-y / review all-n / short-report / disable); each case is one real pytest session; expected "
        "outcome per test is known to the generator; non-trivial = the program contains a bad site and a category flag or "
        "review makes the comparison itself succeed (the case the property is about); distinct = (program, flags)"
        "; plus every value sequence (length 2, thorough 3) at one shared call site for six operations, and 3-session histories with the bytecode cache on")
ASSUMPTIONS = ["pytest 9.1.1 / CPython 3.12 (is_pytest_compatible() is true, assertion rewriting stays on)",
               "outcomes are read from the -rA short summary lines and the exit status of the session"]
TASK_TIMEOUT = 600

CATS = ("create", "fix", "trim", "update")

SITE = {
    ("==", "good"): ["assert 5 == snapshot(5)"],
    ("==", "wrong"): ["assert 5 == snapshot(4)"],
    ("==", "empty"): ["assert 5 == snapshot()"],
    ("==", "wrongnested"): ["assert [1, 5] == snapshot([1, 4])"],
    ("<=", "good"): ["assert 5 <= snapshot(5)"],
    ("<=", "slack"): ["assert 5 <= snapshot(7)"],
    ("<=", "wrong"): ["assert 5 <= snapshot(3)"],
    ("<=", "empty"): ["assert 5 <= snapshot()"],
    ("<=", "loopbad"): ["for x in (1, 8, 2):", "    assert x <= snapshot(5)"],
    ("<=", "loopbadlast"): ["for x in (1, 2, 8):", "    assert x <= snapshot(5)"],
    ("<=", "loopgood"): ["for x in (1, 5, 2):", "    assert x <= snapshot(5)"],
    (">=", "good"): ["assert 5 >= snapshot(5)"],
    (">=", "slack"): ["assert 5 >= snapshot(2)"],
    (">=", "wrong"): ["assert 5 >= snapshot(8)"],
    (">=", "empty"): ["assert 5 >= snapshot()"],
    (">=", "loopbad"): ["for x in (9, 2, 7):", "    assert x >= snapshot(5)"],
    (">=", "loopgood"): ["for x in (9, 5, 7):", "    assert x >= snapshot(5)"],
    ("in", "good"): ["assert 5 in snapshot([5])"],
    ("in", "slack"): ["assert 5 in snapshot([5, 6])"],
    ("in", "wrong"): ["assert 5 in snapshot([4])"],
    ("in", "empty"): ["assert 5 in snapshot()"],
    ("in", "loopbad"): ["for x in (5, 4, 5):", "    assert x in snapshot([5])"],
    ("in", "loopgood"): ["for x in (5, 6, 5):", "    assert x in snapshot([5, 6])"],
    ("[k]", "good"): ['assert snapshot({"a": 5})["a"] == 5'],
    ("[k]", "slack"): ['assert snapshot({"a": 5, "b": 1})["a"] == 5'],
    ("[k]", "wrong"): ['assert snapshot({"a": 4})["a"] == 5'],
    ("[k]", "empty"): ['assert snapshot()["a"] == 5'],
    ("[k]", "wrongkey"): ['assert snapshot({"b": 5})["a"] == 5'],
    ("[k]", "loopbad"): ['s = snapshot({"a": 5})', 'for k in ("a", "b"):', "    assert s[k] == 5"],
    ("[k]", "loopgood"): ['s = snapshot({"a": 5, "b": 5})', 'for k in ("a", "b"):', "    assert s[k] == 5"],
    # evaluated in code that has no source (nothing can be rewritten, the counters must still work)
    ("==", "nosrcgood"): ["assert 5 == eval('snapshot(5)')"],
    ("==", "nosrcwrong"): ["assert 5 == eval('snapshot(4)')"],
    ("==", "nosrcempty"): ["assert 5 == eval('snapshot()')"],
    ("<=", "nosrcwrong"): ["assert 5 <= eval('snapshot(3)')"],
    ("in", "nosrcwrong"): ["assert 5 in eval('snapshot([4])')"],
    ("[k]", "nosrcwrong"): ["assert eval(\"snapshot({'a': 4})\")['a'] == 5"],
    # compared in another thread started (and joined) by the test
    ("==", "threadgood"): ["import threading", "r = []", "t = threading.Thread(target=lambda: r.append(5 == snapshot(5)))", "t.start()", "t.join()", "assert r[0]"],
    ("==", "threadwrong"): ["import threading", "r = []", "t = threading.Thread(target=lambda: r.append(5 == snapshot(4)))", "t.start()", "t.join()", "assert r[0]"],
    ("==", "threadempty"): ["import threading", "r = []", "t = threading.Thread(target=lambda: r.append(5 == snapshot()))", "t.start()", "t.join()", "assert r[0]"],
    ("<=", "threadempty"): ["from concurrent.futures import ThreadPoolExecutor", "with ThreadPoolExecutor(1) as ex:", "    assert ex.submit(lambda: 5 <= snapshot()).result()"],
    ("in", "threadwrong"): ["from concurrent.futures import ThreadPoolExecutor", "with ThreadPoolExecutor(1) as ex:", "    assert ex.submit(lambda: 5 in snapshot([4])).result()"],
    # the snapshot is created by the test function, only the comparison happens in the other thread
    ("==", "threadcmpgood"): ["import threading", "s = snapshot(5)", "r = []", "t = threading.Thread(target=lambda: r.append(5 == s))", "t.start()", "t.join()", "assert r == [True]"],
    ("==", "threadcmpwrong"): ["import threading", "s = snapshot(4)", "r = []", "t = threading.Thread(target=lambda: r.append(5 == s))", "t.start()", "t.join()", "assert r == [True]"],
    ("==", "threadcmpempty"): ["import threading", "s = snapshot()", "r = []", "t = threading.Thread(target=lambda: r.append(5 == s))", "t.start()", "t.join()", "assert r == [True]"],
    ("<=", "threadcmpempty"): ["from concurrent.futures import ThreadPoolExecutor", "s = snapshot()", "with ThreadPoolExecutor(2) as ex:", "    assert all(ex.map(lambda x: x <= s, [1, 3, 2]))"],
    ("in", "threadcmpempty"): ["from concurrent.futures import ThreadPoolExecutor", "s = snapshot()", "with ThreadPoolExecutor(1) as ex:", "    assert ex.submit(lambda: 5 in s).result()"],
    ("[k]", "threadcmpempty"): ["import threading", "s = snapshot({'a': 1})", "r = []", "t = threading.Thread(target=lambda: r.append(s['b'] == 5))", "t.start()", "t.join()", "assert r == [True]"],
    ("in", "threadcmpwrong"): ["from concurrent.futures import ThreadPoolExecutor", "s = snapshot([4])", "with ThreadPoolExecutor(1) as ex:", "    assert ex.submit(lambda: 5 in s).result()"],
    # code objects that start on the same line with the same name, each holding its own snapshot
    ("<=", "lambdasgood"): ["lo, hi = (lambda v: v >= snapshot(0)), (lambda v: v <= snapshot(100))", "assert lo(5) and hi(5)"],
    ("==", "lambdasgood"): ["f, g = (lambda: 1 == snapshot(1)), (lambda: 'a' == snapshot('a'))", "assert f() and g() and f()"],
    ("in", "genexprsgood"): ["a, b = list(x in snapshot([1, 2]) for x in (1, 2)), list(x in snapshot(['p']) for x in ('p',))", "assert all(a) and all(b)"],
    ("==", "lambdaswrong"): ["f, g = (lambda: 1 == snapshot(1)), (lambda: 'a' == snapshot('b'))", "assert f() and g()"],
    ("[k]<=", "wrong"): ['assert 8 <= snapshot({"a": 5})["a"]'],
    # a HasRepr stand-in names a class: an object of another class with the same name and repr is not what was recorded
    ("==", "hasreprgood"): ["from inline_snapshot import HasRepr", "class User:", "    def __repr__(self):", "        return '<User 1>'", "    def __eq__(self, o):", "        return isinstance(o, User) or NotImplemented",
                            "assert User() == snapshot(HasRepr(User, '<User 1>'))"],
    ("==", "hasreprwrong"): ["from inline_snapshot import HasRepr", "def make():", "    class User:", "        def __repr__(self):", "            return '<User 1>'", "    return User", "User, Other = make(), make()",
                             "assert Other() == snapshot(HasRepr(User, '<User 1>'))"],
    ("in", "hasreprwrong"): ["from inline_snapshot import HasRepr", "def make():", "    class User:", "        def __repr__(self):", "            return '<User 1>'", "    return User", "User, Other = make(), make()",
                             "assert Other() in snapshot([HasRepr(User, '<User 1>')])"],
    ("[k]in", "wrong"): ['assert 8 in snapshot({"a": [5]})["a"]'],
}
BAD = {"wrong", "empty", "wrongkey", "loopbad", "loopbadlast", "wrongnested", "nosrcwrong", "nosrcempty", "threadwrong", "threadempty", "threadcmpwrong", "threadcmpempty", "lambdaswrong", "hasreprwrong"}
OPS = ("==", "<=", ">=", "in", "[k]")


def bounds(tier):
    return {"site_kinds": len(SITE), "flag_configs": len(_configs(tier))}


def _configs(tier):
    subsets = [list(c) for n in range(5) for c in itertools.combinations(CATS, n)]
    cfg = [{"flags": s, "stdin": None} for s in subsets]
    if tier == "quick":
        modes = [(["report"], None), (["review"], "y"), (["review"], "n"), (["short-report", "fix"], None),
                 (["report", "fix"], None), (["review", "create"], "n")]
        for m, a in modes:
            cfg.append({"flags": m, "stdin": a})
    else:
        for s in subsets:
            for m, a in (("report", None), ("review", "y"), ("review", "n"), ("short-report", None)):
                cfg.append({"flags": [m] + s, "stdin": a})
    cfg.append({"flags": ["disable"], "stdin": None})
    cfg.append({"flags": None, "stdin": None})  # no --inline-snapshot option at all: default flags
    return cfg


def _programs(tier):
    progs = []
    # (a) single test, single site
    for (op, kind) in SITE:
        progs.append({"tests": [[[op, kind]]]})
    # (b) one test, three sites, the bad one first / middle / last, neighbours good of another op
    ops_b = OPS if tier == "thorough" else OPS
    for op in ops_b:
        for kind in ("wrong", "empty"):
            for pos in range(3):
                sites = [["==", "good"], ["<=", "slack"] if op != "<=" else ["in", "slack"], ["==", "good"]]
                sites[pos] = [op, kind]
                progs.append({"tests": [sites]})
    # (c) three tests, one site each, one bad
    for op in (OPS if tier == "thorough" else ("==", "<=", "in")):
        for kind in ("wrong", "empty"):
            for pos in range(3):
                tests = [[["==", "good"]], [[op, "good"]], [["in", "good"]]]
                tests[pos] = [[op, kind]]
                progs.append({"tests": tests})
    for i in range(len(SPECIAL)):
        if tier == "thorough" or not SPECIAL[i].get("thorough"):
            progs.append({"special": i})
    if tier == "thorough":
        # two bad sites in different tests, and all-good programs of every op pair
        for o1, o2 in itertools.product(OPS, OPS):
            progs.append({"tests": [[[o1, "wrong"]], [[o2, "good"]], [[o2, "empty"]]]})
            progs.append({"tests": [[[o1, "good"], [o2, "good"]]]})
            progs.append({"tests": [[[o1, "good"], [o2, "wrong"], [o1, "empty"]]]})
    return progs


_EX = ("from inline_snapshot import snapshot\nfrom inline_snapshot.testing import Example\n\n\n"
       "def test_outer():\n    Example('from inline_snapshot import snapshot\\ndef test_a():\\n    assert 1 == snapshot()\\n')"
       ".run_inline(['--inline-snapshot=%s'], %s=%s)\n")
_PAR = "import pytest\nfrom inline_snapshot import snapshot\n\n\n@pytest.mark.parametrize('x', %s)\ndef test_p(x):\n    %s\n"
_SH = "from inline_snapshot import snapshot\n\ns = snapshot(%s)\n\n\ndef test_a():\n    %s\n\n\ndef test_b():\n    %s\n"
T = "test_something.py::"
SPECIAL = []
for _op, _st in (("<=", "assert x <= snapshot()"), (">=", "assert x >= snapshot()"), ("in", "assert x in snapshot()"),
                 ("[k]", "assert snapshot()['a'] <= x"), ("==", "assert (x, 5)[1] == snapshot()")):
    SPECIAL.append({"src": _PAR % ("[1, 2, 3]", _st), "exp": {T + "test_p[1]": True, T + "test_p[2]": True, T + "test_p[3]": True}, "name": "param-empty" + _op})
SPECIAL += [
    {"src": _PAR % ("[1, 3, 2]", "assert x <= snapshot(2)"), "exp": {T + "test_p[1]": False, T + "test_p[3]": True, T + "test_p[2]": False}, "name": "param-wrong<="},
    {"src": _PAR % ("[3, 1, 4]", "assert x <= snapshot(2)"), "exp": {T + "test_p[3]": True, T + "test_p[1]": False, T + "test_p[4]": True}, "name": "param-two-wrong<="},
    {"src": _PAR % ("[7, 8]", "assert x in snapshot([5])"), "exp": {T + "test_p[7]": True, T + "test_p[8]": True}, "name": "param-two-wrong-in"},
    {"src": "from inline_snapshot import snapshot\n\n\ndef helper(x):\n    assert x <= snapshot(1)\n\n\ndef test_a():\n    helper(2)\n\n\ndef test_b():\n    helper(3)\n\n\ndef test_c():\n    helper(1)\n",
     "exp": {T + "test_a": True, T + "test_b": True, T + "test_c": False}, "name": "helper-shared-wrong"},
    {"src": _PAR % ("[5, 4, 6]", "assert x in snapshot([5, 6])"), "exp": {T + "test_p[5]": False, T + "test_p[4]": True, T + "test_p[6]": False}, "name": "param-wrong-in"},
    {"src": _PAR % ("[5, 4]", "assert x == snapshot(5)"), "exp": {T + "test_p[5]": False, T + "test_p[4]": True}, "name": "param-wrong=="},
    {"src": _SH % ("", "assert 1 <= s", "assert 2 <= s"), "exp": {T + "test_a": True, T + "test_b": True}, "name": "shared-empty<="},
    {"src": _SH % ("", "assert 1 in s", "assert 2 in s"), "exp": {T + "test_a": True, T + "test_b": True}, "name": "shared-empty-in"},
    {"src": _SH % ("1", "assert 1 <= s", "assert 2 <= s"), "exp": {T + "test_a": False, T + "test_b": True}, "name": "shared-wrong<="},
    {"src": _SH % ("[1]", "assert 1 in s", "assert 2 in s"), "exp": {T + "test_a": False, T + "test_b": True}, "name": "shared-wrong-in"},
    {"src": _SH % ("{'a': 1}", "assert s['a'] == 1", "assert s['b'] == 2"), "exp": {T + "test_a": False, T + "test_b": True}, "name": "shared-missing-key"},
]
# one call site evaluated by several tests: every sequence of compared values around the stored one
# (earlier evaluations leave a recorded value behind; each test must still be judged against the source)
_HLP = "from inline_snapshot import snapshot\n\n\ndef helper(x):\n    %s\n\n\n%s"
for _op, _st, _ok, _dom in (("<=", "assert x <= snapshot(2)", lambda x: x <= 2, (1, 2, 3, 4)), (">=", "assert x >= snapshot(3)", lambda x: x >= 3, (1, 2, 3, 4)),
                            ("in", "assert x in snapshot([2, 3])", lambda x: x in (2, 3), (1, 2, 4)), ("==", "assert x == snapshot(2)", lambda x: x == 2, (1, 2, 3)),
                            ("[k]", "assert snapshot({'a': 2})['a'] == x", lambda x: x == 2, (1, 2, 3)),
                            ("[k]<=", "assert x <= snapshot({'a': 2})['a']", lambda x: x <= 2, (1, 2, 3, 4))):
    for _n in (2, 3):
        for _seq in itertools.product(_dom, repeat=_n):
            if all(_ok(x) for x in _seq):
                continue
            if _op in ("==", "[k]") and len(set(_seq)) > 1:
                continue  # one == snapshot compared with different values contradicts itself (outside the property)
            SPECIAL.append({"src": _HLP % (_st, "".join("def test_%d():\n    helper(%d)\n\n\n" % (i, x) for i, x in enumerate(_seq))),
                            "exp": {T + "test_%d" % i: not _ok(x) for i, x in enumerate(_seq)}, "name": "shared-site-seq%s%s" % (_op, list(_seq)), "thorough": _n == 3})
for _fl in ("create", ""):
    for _arg, _val, _bad in (("reported_categories", "snapshot(['fix'])", True), ("reported_categories", "snapshot()", True),
                              ("reported_categories", "snapshot(['create'])", False),
                              ("changed_files", "snapshot({})", _fl == "create"), ("changed_files", "snapshot()", True)):
        SPECIAL.append({"src": _EX % (_fl, _arg, _val), "exp": {T + "test_outer": _bad}, "name": "example-%s-%s-%s" % (_fl, _arg, _val)})


# a test that runs a nested in-process session (pytester) after a wrong / empty comparison: the counters of the outer test
# must survive whatever the inner session does with the session state (disabled, CI, active)
_NEST = ("from inline_snapshot import snapshot\n\n\ndef test_outer(pytester, monkeypatch):\n    %s\n    pytester.makepyfile('def test_x():\\n    pass\\n')\n"
         "    %s\n    r = pytester.runpytest(%s)\n    assert r.ret == 0\n")
for _cmp, _bad in (("assert 5 == snapshot(4)", True), ("assert 5 == snapshot()", True), ("assert 5 in snapshot([4])", True), ("assert 5 == snapshot(5)", False)):
    for _pre, _args in (("pass", "'--inline-snapshot=disable'"), ("monkeypatch.setenv('CI', 'true')", "'--inline-snapshot=fix'"), ("pass", "'--inline-snapshot=report'"), ("pass", "")):
        SPECIAL.append({"src": _NEST % (_cmp, _pre, _args), "exp": {T + "test_outer": _bad}, "name": "nested-session", "conftest": "pytest_plugins = ['pytester']\n"})


def source(prog):
    if "special" in prog:
        return SPECIAL[prog["special"]]["src"]
    out = ["from inline_snapshot import snapshot\n"]
    for ti, sites in enumerate(prog["tests"]):
        out.append("\n\ndef test_%d():\n" % ti)
        for op, kind in sites:
            for ln in SITE[(op, kind)]:
                out.append("    " + ln + "\n")
    return "".join(out)


# histories of sessions in one real directory with the bytecode cache ON (the Python default): the compared value comes from the
# environment, the file is dated back before every session (so a rewrite on the unchanged tree always changes its mtime); every
# session must judge the value against what the source holds now, not against what an earlier session compiled
H_OPS = {"==": ("assert int(os.environ['VALUE']) == snapshot(4)", lambda v, s: v == s), "<=": ("assert int(os.environ['VALUE']) <= snapshot(4)", lambda v, s: v <= s),
         "in": ("assert int(os.environ['VALUE']) in snapshot([4])", None)}


def _histories(tier):
    out = []
    for op in (("==", "<=") if tier == "quick" else ("==", "<=", "in")):
        for vals in itertools.product((4, 5), repeat=3):
            for fls in itertools.product(([], ["fix"]), repeat=3):
                if fls[0] == [] and fls[1] == []:
                    continue  # nothing is ever rewritten before the last session
                out.append({"history": {"op": op, "values": list(vals), "flags": [list(f) for f in fls]}})
    return out


def _run_history(case):
    import os
    import time
    from ..drivers import plugin

    h = case["history"]
    src = "import os\nfrom inline_snapshot import snapshot\n\n\ndef test_a():\n    %s\n" % H_OPS[h["op"]][0]
    d = plugin.mk_project({"test_something.py": src, "pyproject.toml": ""})
    viol = []
    stored = 4 if h["op"] != "in" else [4]
    try:
        for i, (v, fl) in enumerate(zip(h["values"], h["flags"])):
            # the clock of the history: a file written "now" (by the harness or by a rewrite) is given its own distinct past date, a file
            # that still carries the date of an earlier step is left alone (the cache key of pytest / Python is (mtime, size))
            fn = os.path.join(d, "test_something.py")
            if os.stat(fn).st_mtime > time.time() - 1000:
                old = time.time() - 50000 + 1000 * i
                os.utime(fn, (old, old))
            r = plugin.session(d, ["--inline-snapshot=" + ",".join(fl)] if fl else [], env={"VALUE": str(v)}, bytecode=True)
            text = plugin.listing(d, text=True)["test_something.py"]
            bad = (v not in stored) if h["op"] == "in" else not H_OPS[h["op"]][1](v, stored)
            got = r["outcomes"].get(T + "test_a", [])
            failed = any(g in ("FAILED", "ERROR") for g in got)
            det = "session %d of %s: VALUE=%s flags=%s, the source held %r; outcomes=%s rc=%s\n--- file now ---\n%s--- output tail ---\n%s" % (i, h, v, fl, stored, got, r["rc"], text, r["out"][-800:])
            if plugin.internal_error(r["out"]) or r["rc"] not in (0, 1):
                viol.append({"case": case, "what": "internal-error", "detail": det})
                break
            if bad and (not failed or r["rc"] == 0):
                viol.append({"case": case, "what": "green-with-bad-snapshot", "detail": det})
                break
            if not bad and (failed or r["rc"] != 0):
                viol.append({"case": case, "what": "good-test-not-passed", "detail": det})
                break
            if bad and "fix" in fl:
                stored = (stored + [v]) if h["op"] == "in" else v
    finally:
        plugin.cleanup()
    return viol


def build(tier, seed):
    cfgs = _configs(tier)
    tasks = []
    for p in _programs(tier):
        tasks.append({"prog": p, "cfgs": cfgs})
    hs = _histories(tier)
    tasks += [{"hist": hs[i : i + 6]} for i in range(0, len(hs), 6)]
    return tasks


def _expect(prog):
    if "special" in prog:
        return dict(SPECIAL[prog["special"]]["exp"])
    return {"test_something.py::test_%d" % ti: any(k in BAD for _, k in sites) for ti, sites in enumerate(prog["tests"])}


def run_case(case):
    from ..drivers import plugin

    if "history" in case:
        return _run_history(case)
    prog, cfg = case["prog"], case["cfg"]
    src = source(prog)
    if cfg["flags"] == ["disable"] and "\ns = snapshot()\n" in src:
        return []  # an empty module-level snapshot() raises at import time when disabled: outside the property's scope
    files = {"test_something.py": src, "pyproject.toml": ""}
    if "special" in prog and SPECIAL[prog["special"]].get("conftest"):
        files["conftest.py"] = SPECIAL[prog["special"]]["conftest"]
    d = plugin.mk_project(files)
    try:
        args = [] if cfg["flags"] is None else ["--inline-snapshot=" + ",".join(cfg["flags"])]
        stdin = None if cfg["stdin"] is None else (cfg["stdin"] + "\n").encode() * 12
        r = plugin.session(d, args, stdin=stdin)
    finally:
        plugin.cleanup()
    exp = _expect(prog)
    viol = []

    def V(what, detail):
        viol.append({"case": case, "what": what, "detail": detail + "\n--- source ---\n" + src + "--- output tail ---\n" + r["out"][-1500:]})

    if plugin.internal_error(r["out"]) or r["rc"] not in (0, 1):
        V("internal-error", "rc=%s" % r["rc"])
        return viol
    anybad = any(exp.values())
    for nid, bad in exp.items():
        got = r["outcomes"].get(nid, [])
        failed = any(g in ("FAILED", "ERROR") for g in got)
        if bad and not failed:
            V("green-with-bad-snapshot", "%s outcomes=%s rc=%s" % (nid, got, r["rc"]))
        if not bad and (failed or "PASSED" not in got):
            V("good-test-not-passed", "%s outcomes=%s" % (nid, got))
    if anybad and r["rc"] == 0:
        V("exit-zero-with-bad-snapshot", "rc=0")
    if not anybad and r["rc"] != 0:
        V("nonzero-exit-without-bad-snapshot", "rc=%s" % r["rc"])
    return viol


def run_task(task):
    out = {"n": 0, "nontrivial": [], "outcomes": {}, "violations": [], "samples": []}
    if "hist" in task:
        for case in task["hist"]:
            vs = _run_history(case)
            out["n"] += 1
            lab = "viol:" + vs[0]["what"] if vs else "ok:bytecode-cache-history"
            out["violations"] += vs
            if not vs:
                out["nontrivial"].append("hist|%s" % case["history"])
            out["outcomes"][lab] = out["outcomes"].get(lab, 0) + 1
        return out
    prog = task["prog"]
    exp = _expect(prog)
    for cfg in task["cfgs"]:
        case = {"prog": prog, "cfg": cfg}
        vs = run_case(case)
        out["n"] += 1
        fl = cfg["flags"] or []
        lab = ("bad" if any(exp.values()) else "allgood") + ":" + ",".join(fl if cfg["flags"] is not None else ["<default>"]) + (":" + cfg["stdin"] if cfg["stdin"] else "")
        if vs:
            out["violations"] += vs
            lab = "viol:" + vs[0]["what"]
        elif any(exp.values()) and (set(fl) & {"create", "fix", "update", "review"}):
            out["nontrivial"].append(str(prog.get("tests", prog.get("special"))) + "|" + lab)
        out["outcomes"][lab] = out["outcomes"].get(lab, 0) + 1
    out["samples"].append({"program": source(prog), "flags": task["cfgs"][2]["flags"], "expected_failing_tests": [k for k, v in exp.items() if v]})
    return out
