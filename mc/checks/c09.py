"""C09 - the order in which categories are approved does not matter.
State graph per program: from s0 every sequence of single-category sessions that is a permutation of the pending
set P (|P| >= 2), plus the edge s0 -P-> (all at once); states are file texts, deduplicated; oracle: all maximal
paths end in one syntax tree.  Programs: slot assignments {ok, needs-update, wrong, slack/unused, missing} over <= 3
slots of a list under ==, a collection under `in`, a dict of sub-snapshots, a dataclass call, nested containers,
and the same categories spread over separate call sites of one file."""
from __future__ import annotations

import ast
import itertools
import json


def json_dumps(x):
    return json.dumps(x, sort_keys=True)

ID = "C09"
LEVEL = "model_checking"
RULE = ("programs = slot assignments over <= 3 slots for 5 container shapes + separate-site files; P = categories reported by a "
        "flag-less run; explored graph = prefix tree of all |P|! single-category orders (shared prefixes executed once) plus the "
        "joint run; states = distinct file texts, transitions = sessions (Example.run_inline; a slice of programs through real "
        "pytest sessions); observations are recorded, not asserted, so they do not depend on the approved set; validated = "
        "programs whose maximal paths all end in one AST; non-trivial = |P| >= 2"
        "; plus one-line multi-site programs behind non-ASCII text and equal-but-differently-typed value pairs under two keys")
ASSUMPTIONS = ["programs whose observations depend on the approved set (a failing assert aborting the test) are excluded: "
               "that is the documented hazard of trimming on an incomplete run, not a confluence failure"]
CATS = ("create", "fix", "trim", "update")
TASK_TIMEOUT = 900
DC4 = ("from dataclasses import dataclass\n@dataclass\nclass DC4:\n    a: int = 0\n    b: int = 0\n    c: int = 0\n    d: int = 0\n\n\n"
       "from collections import namedtuple\nNT4 = namedtuple('NT4', 'a,b,c,d', defaults=[0, 0, 0, 0])\n\n\n"
       "import attrs\n@attrs.define\nclass AT4:\n    a: int = 0\n    b: int = 0\n    c: int = 0\n    d: int = 0\n\n\n")
# elements removed by fix that hold several pending updates (inner snapshots that are never compared), next to other categories
INNER = [
    "_ok = [1] == snapshot([1, snapshot([1 + 1, 2 + 2])])",
    "_ok = [1] == snapshot([1, [snapshot(1 + 1), snapshot(2 + 2)]])",
    "_ok = {'a': 1} == snapshot({'a': 1, 'b': snapshot([1 + 1, 2 + 2])})",
    "_ok = [1, 9] == snapshot([1+0, [snapshot(1 + 1), snapshot(2 + 2), snapshot(3 + 3)]])",
    "_ok = (1,) == snapshot((1, snapshot({'k': 1 + 1, 'j': 2 + 2})))",
    "_ok = 5 == snapshot([snapshot(1 + 1), snapshot(2 + 2)])",
    "_ok = [1] == snapshot([1, snapshot([1 + 1, 2 + 2]), snapshot()])",
]
KEYS = ("a", "b", "c")


ASSERTED = ["assert 8 <= snapshot(5)", "assert 7 == snapshot()", "assert 5 == snapshot(5+0)", "assert 3 in snapshot([])", "assert 2 >= snapshot(6)",
            "assert snapshot({})['b'] == 2", "assert [1, 2] == snapshot([1+0])", "assert 'x' == snapshot('y')"]


TWINS = [("1.0", "1"), ("1", "1.0"), ("True", "1"), ("1", "True"), ("0", "False"), ("False", "0.0"), ("(1, 2)", "(1.0, 2.0)"), ("'a'", "'a'"), ("2", "2"),
         ("frozenset({1})", "frozenset({1.0})"), ("1j + 0", "1"), ("-0.0", "0")]
TWIN_FORMS = [
    ["s = snapshot({'a': []})", "_ok = s['a'] == [%(x)s]", "_ok = s['b'] == %(y)s"],
    ["s = snapshot({'a': {}})", "_ok = s['a'] == {'k': %(x)s}", "_ok = s['b'] == %(y)s"],
    ["s = snapshot({'a': DC4()})", "_ok = s['a'] == DC4(b=%(x)s)", "_ok = s['b'] == %(y)s"],
    ["s = snapshot({'a': [7+0]})", "_ok = s['a'] == [7, %(x)s]", "_ok = s['b'] == [%(y)s]", "_ok = %(y)s in s['c']"],
    ["_ok = [%(x)s, %(y)s] == snapshot([])", "_ok = {'p': %(y)s, 'q': %(x)s} == snapshot({'p': [%(y)s][0]})"],
]


def bounds(tier):
    return {"multi_file_projects": len(MULTI), "programs": len(_programs(tier)), "max_slots": 3, "plugin_programs": 12 if tier == "quick" else 80}


def _programs(tier):
    progs = []
    n_range = (1, 2, 3)
    for n in n_range:
        # list under ==: ok / upd / wrong, observed may be longer (append) or shorter (drop last)
        for slots in itertools.product(("ok", "upd", "wrong"), repeat=n):
            for tail in ("same", "longer", "shorter", "longer-front"):
                progs.append({"sh": "list", "s": list(slots), "t": tail})
        # collection under `in`
        for slots in itertools.product(("used", "usedupd", "unused", "unusedupd"), repeat=n):
            for miss in (0, 1, 2):
                progs.append({"sh": "in", "s": list(slots), "m": miss})
        # dict of sub-snapshots
        for slots in itertools.product(("ok", "upd", "wrong", "unused", "slack", "inmiss"), repeat=n):
            if tier == "quick" and n == 3 and len(set(slots)) < 2:
                continue
            for miss in (0, 1):
                progs.append({"sh": "sub", "s": list(slots), "m": miss})
        # dataclass call (and the same call shapes for a namedtuple with defaults and an attrs class)
        for slots in itertools.product(("ok", "upd", "wrong", "default", "absent"), repeat=n):
            progs.append({"sh": "dc", "s": list(slots)})
            progs.append({"sh": "dc", "s": list(slots), "cls": "NT4"})
            if n < 3 or tier != "quick":
                progs.append({"sh": "dc", "s": list(slots), "cls": "AT4"})
        # nested: dict value holding a list
        for slots in itertools.product(("ok", "upd", "wrong"), repeat=n):
            for tail in ("same", "longer"):
                for other in ("ok", "upd", "wrong", "gone", "new"):
                    progs.append({"sh": "nested", "s": list(slots), "t": tail, "o": other})
    # four-slot constructor calls (two surviving keywords around a deleted default and an inserted argument)
    for slots in itertools.product(("ok", "wrong", "default", "absent"), repeat=4):
        if "default" in slots and "absent" in slots:
            for cls in ("DC4", "NT4") + (("AT4",) if tier != "quick" else ()):
                progs.append({"sh": "dc", "s": list(slots), "cls": cls})
    # asserted bodies without trim: every single-category run lets the test continue, so orders must still converge
    menu = list(range(len(ASSERTED)))
    for k in (2, 3):
        for combo in itertools.product(menu, repeat=k):
            if len(set(combo)) == k:
                progs.append({"sh": "asserted", "s": list(combo)})
    for i in range(len(INNER)):
        progs.append({"sh": "inner", "i": i})
    # separate call sites
    # sites whose new code needs an import (external by create, HasRepr by fix, and the other way round)
    for combo in (("ext", "hasreprfix"), ("hasrepr", "extfix"), ("ext", "hasreprfix", "update"), ("hasrepr", "extfix", "trim"), ("ext", "extfix"), ("hasrepr", "hasreprfix")):
        progs.append({"sh": "sites", "s": list(combo)})
    for combo in (("fti", "fti2"), ("fti", "fti2", "create"), ("fti", "ftsub"), ("ftsub", "fti", "update"), ("fti2", "fix", "fti"), ("fti", "trim", "fti2", "fix")):
        progs.append({"sh": "sites", "s": list(combo)})
    # equal values of different types (1 / 1.0 / True ...) inserted by fix and created under another key of the same snapshot
    for x, y in TWINS:
        for v in range(len(TWIN_FORMS)):
            progs.append({"sh": "twins", "x": x, "y": y, "v": v})
    # several call sites on one source line; what an earlier session writes in front (non-ASCII text) shifts the columns of the later ones
    line_sites = ("createuni", "fixuni", "fixl", "trim", "update", "updl", "trimin")
    for k in (2, 3):
        for combo in itertools.permutations(line_sites, k):
            if ("createuni" in combo or "fixuni" in combo) and (k == 2 or tier != "quick" or combo[0] in ("createuni", "fixuni")):
                progs.append({"sh": "oneline", "s": list(combo)})
    sites = ("create", "fix", "trim", "update", "trimin", "fixl", "updl")
    for k in (2, 3, 4):
        for combo in itertools.permutations(sites, k) if k == 2 else itertools.combinations(sites, k):
            progs.append({"sh": "sites", "s": list(combo)})
    return progs


def source(p):
    sh = p["sh"]
    pre = "from inline_snapshot import snapshot\n\n\n"
    body = []
    if sh == "list":
        vals = [10 * i + 5 for i in range(len(p["s"]))]
        txt = [{"ok": repr(v), "upd": "%r+0" % v, "wrong": repr(v + 1)}[k] for v, k in zip(vals, p["s"])]
        obs = list(vals)
        if p["t"] == "longer":
            obs.append(99)
        elif p["t"] == "longer-front":
            obs.insert(0, 99)
        elif p["t"] == "shorter":
            obs = obs[:-1]
        body = ["_ok = %r == snapshot([%s])" % (obs, ", ".join(txt))]
    elif sh == "in":
        vals = [10 * i + 5 for i in range(len(p["s"]))]
        txt = [("%r+0" % v) if k.endswith("upd") else repr(v) for v, k in zip(vals, p["s"])]
        tested = [v for v, k in zip(vals, p["s"]) if k.startswith("used")] + [91, 92][: p["m"]]
        if not tested:
            tested = [91]
        body = ["s = snapshot([%s])" % ", ".join(txt)] + ["_ok = %r in s" % v for v in tested]
    elif sh == "sub":
        items = []
        acc = []
        for i, k in enumerate(p["s"]):
            key = KEYS[i]
            v = 10 * i + 5
            if k == "slack":
                items.append("%r: %r" % (key, v + 4))
                acc.append("_ok = %r <= s[%r]" % (v, key))
            elif k == "inmiss":
                items.append("%r: [%r, %r]" % (key, v, v + 1))
                acc.append("_ok = %r in s[%r]" % (v + 2, key))
                acc.append("_ok = %r in s[%r]" % (v, key))
            else:
                items.append("%r: %s" % (key, {"ok": repr(v), "upd": "%r+0" % v, "wrong": repr(v + 1), "unused": repr(v)}[k]))
                if k != "unused":
                    acc.append("_ok = s[%r] == %r" % (key, v))
        if p["m"]:
            acc.append("_ok = s['z'] == 77")
        if not acc:
            acc = ["s['q']"]
        body = ["s = snapshot({%s})" % ", ".join(items)] + acc
    elif sh == "dc":
        pre = DC4 + pre
        names = "abcd"
        kw, okw = [], []
        for i, k in enumerate(p["s"]):
            v = 10 * i + 5
            if k == "ok":
                kw.append("%s=%r" % (names[i], v)); okw.append("%s=%r" % (names[i], v))
            elif k == "upd":
                kw.append("%s=%r+0" % (names[i], v)); okw.append("%s=%r" % (names[i], v))
            elif k == "wrong":
                kw.append("%s=%r" % (names[i], v + 1)); okw.append("%s=%r" % (names[i], v))
            elif k == "default":
                kw.append("%s=0" % names[i])
            elif k == "absent":
                okw.append("%s=%r" % (names[i], v))
        cls = p.get("cls", "DC4")
        body = ["_ok = %s(%s) == snapshot(%s(%s))" % (cls, ", ".join(okw), cls, ", ".join(kw))]
    elif sh == "inner":
        body = [INNER[p["i"]]]
    elif sh == "nested":
        vals = [10 * i + 5 for i in range(len(p["s"]))]
        txt = [{"ok": repr(v), "upd": "%r+0" % v, "wrong": repr(v + 1)}[k] for v, k in zip(vals, p["s"])]
        obs = list(vals) + ([99] if p["t"] == "longer" else [])
        o = p["o"]
        old_other = {"ok": ", 'j': 1", "upd": ", 'j': 1+0", "wrong": ", 'j': 2", "gone": ", 'j': 1", "new": ""}[o]
        new_other = {"ok": ", 'j': 1", "upd": ", 'j': 1", "wrong": ", 'j': 1", "gone": "", "new": ", 'j': 1"}[o]
        body = ["_ok = {'k': %r%s} == snapshot({'k': [%s]%s})" % (obs, new_other, ", ".join(txt), old_other)]
    elif sh == "asserted":
        body = [ASSERTED[i] for i in p["s"]]
    elif sh == "twins":
        pre = DC4 + pre
        body = [l % {"x": p["x"], "y": p["y"]} for l in TWIN_FORMS[p["v"]]]
    elif sh == "oneline":
        st = {"createuni": "U == snapshot()", "fixuni": "U == snapshot('x')", "trim": "5 <= snapshot(9)", "update": "5 == snapshot(5+0)",
              "trimin": "5 in snapshot([5, 6+0])", "fixl": "[5, 6] == snapshot([5+0])", "updl": "[5, 6] == snapshot([5, 6+0])"}
        return pre + "U = '\xe4\xf6\u20ac\U0001f40d'\n\n\ndef test_0():\n    _ok = (" + ", ".join(st[k] for k in p["s"]) + ")\n"
    elif sh == "sites":
        st = {"create": "_ok = 5 == snapshot()", "fix": "_ok = 5 == snapshot(6)", "trim": "_ok = 5 <= snapshot(9)", "update": "_ok = 5 == snapshot(5+0)",
              "trimin": "_ok = 5 in snapshot([5, 6+0])", "fti": "_ok = 5 in snapshot([4])", "fti2": "_ok = 'b' in snapshot(['a'])",
              "ftsub": "s = snapshot({'old': 1}); _ok = s['new'] == 2", "fixl": "_ok = [5, 6] == snapshot([5+0])", "updl": "_ok = [5, 6] == snapshot([5, 6+0])",
              "hasrepr": "_ok = Opaque(1) == snapshot()", "hasreprfix": "_ok = Opaque(2) == snapshot(0)",
              "ext": "_ok = outsource('data-1') == snapshot()", "extfix": "_ok = outsource('data-2') == snapshot(0)"}
        out = pre
        if any(k.startswith(("hasrepr", "ext")) for k in p["s"]):
            out = ("from inline_snapshot import snapshot, outsource\n\n\nclass Opaque:\n    def __init__(self, n):\n        self.n = n\n    def __repr__(self):\n        return '<Opaque %d>' % self.n\n"
                   "    def __eq__(self, o):\n        return self.n == o.n if isinstance(o, Opaque) else NotImplemented\n\n\n")
        for i, k in enumerate(p["s"]):
            out += "def test_%d():\n    %s\n\n\n" % (i, st[k].replace("; ", "\n    "))
        return out
    return pre + "def test_0():\n" + "".join("    " + b + "\n" for b in body)


MULTI = [  # file -> site kinds; categories are spread unevenly over the files
    {"test_a.py": ["create", "fix"], "test_b.py": ["create"]},
    {"test_a.py": ["create"], "test_b.py": ["create", "fix"]},
    {"test_a.py": ["fix", "trim"], "test_b.py": ["fix"], "test_c.py": ["create"]},
    {"test_a.py": ["create", "update"], "test_b.py": ["trim"], "test_c.py": ["create"]},
    {"test_a.py": ["fti", "fti2"], "test_b.py": ["fix"]},
    {"test_a.py": ["trim"], "test_b.py": ["fix", "fti"], "test_c.py": ["update", "create"]},
]


def _multi_explore(m):
    """All orders of single-category sessions plus the joint session on a multi-file project (real plugin)."""
    from ..drivers import plugin

    files0 = {}
    for fn, kinds in m.items():
        files0[fn] = source({"sh": "sites", "s": kinds})
    case = {"multi": m}

    def step(files, flags):
        d = plugin.mk_project(dict(files, **{"pyproject.toml": ""}))
        try:
            r = plugin.session(d, ["--inline-snapshot=" + ",".join(flags + ["report"])])
            after = {k: v for k, v in plugin.listing(d, text=True).items() if k.endswith(".py")}
        finally:
            plugin.cleanup()
        if plugin.internal_error(r["out"]) or r["rc"] not in (0, 1):
            return None, None, "rc=%s %s" % (r["rc"], r["out"][-500:])
        return after, plugin.report_sections(r["out"]), None

    info = {"P": [], "states": set(), "transitions": 0}
    _, rep, err = step(files0, [])
    info["transitions"] += 1
    if err:
        return [{"case": case, "what": "internal-error", "detail": err}], info
    P = [c for c in CATS if c in rep]
    info["P"] = P
    finals = {}
    joint, _, err = step(files0, P)
    info["transitions"] += 1
    if err:
        return [{"case": case, "what": "internal-error", "detail": "joint %s: %s" % (P, err)}], info
    key = lambda fs: tuple(sorted((k, _norm(v)) for k, v in fs.items()))  # noqa
    finals[key(joint)] = ("joint " + "+".join(P), joint)
    for order in itertools.permutations(P):
        cur = files0
        for c in order:
            cur, _, err = step(cur, [c])
            info["transitions"] += 1
            if err:
                return [{"case": case, "what": "internal-error", "detail": "order %s at %s: %s" % (order, c, err)}], info
            info["states"].add(repr(sorted(cur.items())))
        finals.setdefault(key(cur), (" -> ".join(order), cur))
    if len(finals) > 1:
        desc = "\n".join("[%s]\n%s" % (how, "\n".join("%s: %s" % (k, _tail(v)) for k, v in sorted(fs.items()))) for how, fs in finals.values())
        return [{"case": case, "what": "order-dependent-result", "detail": "pending %s; %d different final projects:\n%s" % (P, len(finals), desc[:1500])}], info
    return [], info


def build(tier, seed):
    progs = _programs(tier)
    tasks = [{"progs": progs[i : i + 6], "drv": "inline"} for i in range(0, len(progs), 6)]
    step = max(1, len(progs) // (12 if tier == "quick" else 80))
    sel = [p for p in progs if p["sh"] in ("sub", "sites", "in")][::step][: (12 if tier == "quick" else 80)]
    tasks += [{"progs": [p], "drv": "plugin"} for p in sel]
    tasks += [{"progs": [p], "drv": "plugin"} for p in progs if p["sh"] == "sites" and any(k in ("fti", "ftsub") for k in p["s"])]
    tasks += [{"multi": m} for m in MULTI]
    return tasks


def _step(src, flags, drv):
    """One session. Returns (new text, reported categories or None, error)."""
    if drv == "inline":
        from ..drivers.inline import run_inline

        r = run_inline({"test_something.py": src}, flags)
        if r["error"]:
            return None, None, r["error"]["type"] + ": " + r["error"]["msg"][:300]
        if r["raised"] and "AssertionError" not in str(r["raised"]):
            return None, None, "test raised: " + str(r["raised"])[:300]
        return r["files"]["test_something.py"], r["reported"] or [], None
    from ..drivers import plugin

    d = plugin.mk_project({"test_something.py": src, "pyproject.toml": ""})
    try:
        r = plugin.session(d, ["--inline-snapshot=" + ",".join(flags + ["report"])])
        after = plugin.listing(d, text=True)["test_something.py"]
    finally:
        plugin.cleanup()
    if plugin.internal_error(r["out"]) or r["rc"] not in (0, 1):
        return None, None, "rc=%s %s" % (r["rc"], r["out"][-500:])
    return after, plugin.report_sections(r["out"]), None


def _norm(text):
    return ast.dump(ast.parse(text))


def _norm_imports(text):
    tree = ast.parse(text)
    added = []
    body = []
    for n in tree.body:
        if (isinstance(n, ast.ImportFrom) and n.module == "inline_snapshot" and len(n.names) == 1
                and n.names[0].name in ("external", "HasRepr") and n.names[0].asname is None):
            added.append(n.names[0].name)
        else:
            body.append(n)
    tree.body = body
    return ast.dump(tree), tuple(sorted(added))


def explore_program(p, drv):
    """Returns (violations, info)."""
    case = {"prog": p, "drv": drv}
    src = source(p)
    viol = []
    info = {"P": [], "states": set(), "transitions": 0}
    _, reported, err = _step(src, [], drv)
    info["transitions"] += 1
    if err:
        return [{"case": case, "what": "internal-error", "detail": "flag-less run: %s\n%s" % (err, src)}], info
    P = [c for c in CATS if c in reported]
    info["P"] = P
    if len(P) < 2 or (p["sh"] == "asserted" and "trim" in P):
        info["P"] = P if len(P) < 2 else []
        return [], info
    cache = {}

    def walk(text, order):
        cur = text
        path = []
        for c in order:
            key = (cur, c)
            if key not in cache:
                t, _, e = _step(cur, [c], drv)
                info["transitions"] += 1
                cache[key] = (t, e)
            t, e = cache[key]
            path.append(c)
            if e:
                return None, "session %s after %s: %s" % (c, path[:-1], e)
            cur = t
            info["states"].add(cur)
        return cur, None

    finals = {}
    joint, _, e = _step(src, P, drv)
    info["transitions"] += 1
    if e:
        return [{"case": case, "what": "internal-error", "detail": "joint run %s: %s\n%s" % (P, e, src)}], info
    info["states"].add(joint)
    try:
        finals[_norm(joint)] = ("joint " + "+".join(P), joint)
    except SyntaxError as ex:
        return [{"case": case, "what": "unparsable", "detail": "joint run: %s\n%s" % (ex, joint)}], info
    for order in itertools.permutations(P):
        t, e = walk(src, order)
        if e:
            viol.append({"case": case, "what": "internal-error", "detail": e + "\n" + src})
            return viol, info
        try:
            k = _norm(t)
        except SyntaxError as ex:
            viol.append({"case": case, "what": "unparsable", "detail": "order %s: %s\n%s" % (order, ex, t)})
            return viol, info
        finals.setdefault(k, (" -> ".join(order), t))
    sig = None
    if len(finals) > 1:
        # residual test of the known finding 'import-order': identical programs once the added single-name
        # `from inline_snapshot import external|HasRepr` statements are compared as a set
        norm = {_norm_imports(txt) for _, txt in finals.values()}
        if len(norm) == 1:
            sig = "import-order"
    if len(finals) > 1:
        desc = "\n".join("[%s]\n%s" % (how, _tail(txt)) for how, txt in finals.values())
        viol.append({"case": case, "what": "order-dependent-result", "sig": sig,
                     "detail": "pending %s; %d different final programs:\n%s\n--- initial ---\n%s" % (P, len(finals), desc, _tail(src))})
    return viol, info


def _tail(t):
    return "\n".join(t.strip().splitlines()[-6:])


def run_case(case):
    if "multi" in case:
        return _multi_explore(case["multi"])[0]
    return explore_program(case["prog"], case["drv"])[0]


def run_task(task):
    out = {"n": 0, "nontrivial": [], "outcomes": {}, "violations": [], "samples": [], "states": [], "transitions": 0, "validated": 0}
    if "multi" in task:
        viol, info = _multi_explore(task["multi"])
        out["n"] = 1
        out["transitions"] = info["transitions"]
        out["states"] = list(info["states"])
        out["violations"] = viol
        lab = "viol:" + viol[0]["what"] if viol else "multi-file:P=%d" % len(info["P"])
        if not viol:
            out["validated"] = 1
            out["nontrivial"].append("multi" + json_dumps(task["multi"]))
        out["outcomes"][lab] = 1
        return out
    for p in task["progs"]:
        viol, info = explore_program(p, task["drv"])
        out["n"] += 1
        out["transitions"] += info["transitions"]
        out["states"] += list(info["states"])
        lab = "P=%d:%s" % (len(info["P"]), task["drv"])
        if viol:
            out["violations"] += viol
            lab = "viol:" + viol[0]["what"]
        elif len(info["P"]) >= 2:
            out["validated"] += 1
            out["nontrivial"].append(repr(sorted(p.items())) + task["drv"])
        out["outcomes"][lab] = out["outcomes"].get(lab, 0) + 1
    p = task["progs"][0]
    out["samples"].append({"program": source(p)[-400:], "driver": task["drv"]})
    return out
