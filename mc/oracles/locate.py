"""Independent locators: snapshot() call parentheses found with CPython's ast end positions
(UTF-8 byte columns converted by hand) -- no asttokens, none of the offset arithmetic under test."""
from __future__ import annotations

import ast


class Loc:
    def __init__(self, text):
        self.text = text
        self.tree = ast.parse(text)
        self.lines = text.splitlines(keepends=True)
        # ast line numbers follow the tokenizer: \r\n, \n and lone \r all end a line -> same as splitlines? no:
        # str.splitlines also splits on \x0b \x0c \x1c-\x1e \x85    , which are not Python line ends.
        self.lines = _py_lines(text)
        self.starts = [0]
        for l in self.lines:
            self.starts.append(self.starts[-1] + len(l))

    def off(self, lineno, col_utf8):
        line = self.lines[lineno - 1]
        return self.starts[lineno - 1] + len(line.encode("utf-8")[:col_utf8].decode("utf-8"))

    def span(self, node):
        return self.off(node.lineno, node.col_offset), self.off(node.end_lineno, node.end_col_offset)

    def seg(self, node):
        a, b = self.span(node)
        return self.text[a:b]


def _py_lines(text):
    out = []
    cur = []
    i = 0
    n = len(text)
    while i < n:
        c = text[i]
        cur.append(c)
        if c == "\r":
            if i + 1 < n and text[i + 1] == "\n":
                cur.append("\n")
                i += 1
            out.append("".join(cur))
            cur = []
        elif c == "\n":
            out.append("".join(cur))
            cur = []
        elif c == "\x0c" and False:
            pass
        i += 1
    if cur:
        out.append("".join(cur))
    return out


def is_snapshot_call(node, names=("snapshot",)):
    if not isinstance(node, ast.Call):
        return False
    if isinstance(node.func, ast.Name):
        return node.func.id in names
    # the function reached through an attribute: inline_snapshot.snapshot(...), lib().snapshot(...)
    return isinstance(node.func, ast.Attribute) and node.func.attr in names


def snapshot_calls(text, toplevel_only=False):
    """List of dicts for each snapshot(...) call in source order:
    node, open (offset just after '('), close (offset of ')'), nargs, arg_text, depth (nesting in other snapshot calls)."""
    loc = Loc(text)
    res = []

    def visit(node, depth):
        d = depth
        if is_snapshot_call(node):
            fe = loc.off(node.func.end_lineno, node.func.end_col_offset)
            ce = loc.off(node.end_lineno, node.end_col_offset)
            i = text.index("(", fe)
            assert text[ce - 1] == ")", (text[ce - 3 : ce + 2],)
            if not (toplevel_only and depth > 0):
                res.append({
                    "node": node, "open": i + 1, "close": ce - 1, "nargs": len(node.args) + len(node.keywords),
                    "arg_text": text[i + 1 : ce - 1], "depth": depth, "lineno": node.lineno,
                })
            d = depth + 1
        for c in ast.iter_child_nodes(node):
            visit(c, d)

    visit(loc.tree, 0)
    res.sort(key=lambda r: r["open"])
    return res


def skeleton(text):
    """File text with the interior of every top-level snapshot(...) call replaced by a marker."""
    out = []
    last = 0
    inner = []
    for c in snapshot_calls(text, toplevel_only=True):
        out.append(text[last : c["open"]])
        out.append("§")
        inner.append(text[c["open"] : c["close"]])
        last = c["close"]
    out.append(text[last:])
    return "".join(out), inner


def arg_value_text(text, index=0):
    c = snapshot_calls(text)[index]
    if not c["node"].args:
        return None
    loc = Loc(text)
    return loc.seg(c["node"].args[0])


def func_of_calls(text):
    """Map: enclosing top-level function name (or '<module>') -> list of snapshot call infos."""
    loc = Loc(text)
    res = {}
    for top in loc.tree.body:
        name = top.name if isinstance(top, (ast.FunctionDef, ast.AsyncFunctionDef)) else "<module>"
        for n in ast.walk(top):
            if is_snapshot_call(n):
                res.setdefault(name, []).append(n)
    return res
