"""Batched single-site files: up to N independent call sites (one test function each) share one generated
module; any site that does not pass in the batch is judged again alone before it is reported, so sites
cannot mask or fake each other's verdict."""
from __future__ import annotations

from ..gen import programs as P


def one_file(cases, site_fn, exprs_fn, flags, analyze, clean=False, needs=(), header="", cwd_pyproject=None,
             want_reexec=True, pre=None, calls=True):
    """Run one generated module. Returns list of verdicts (None = ok | (what, detail)), plus context dict."""
    from ..drivers.inline import run_inline, reexec
    from ..oracles.locate import snapshot_calls

    exprs = []
    for c in cases:
        exprs += exprs_fn(c)
    src = P.module([site_fn(i, c) for i, c in enumerate(cases)], exprs, needs, clean=clean, header=header)
    ctx = {"src": src}
    before_calls = snapshot_calls(src, toplevel_only=True) if calls else [None] * len(cases)
    if len(before_calls) != len(cases):
        raise AssertionError("generator: expected one top-level snapshot call per site (%d vs %d)\n%s" % (len(before_calls), len(cases), src))
    if pre:
        pre()
    r = run_inline({"test_something.py": src}, flags, pyproject=cwd_pyproject)
    ctx["r"] = r
    n = len(cases)
    if r["error"]:
        return [("internal-error", r["error"]["type"] + ": " + r["error"]["msg"][:300])] * n, ctx
    after = r["files"]["test_something.py"]
    ctx["after"] = after
    try:
        after_calls = snapshot_calls(after, toplevel_only=True)
    except SyntaxError as e:
        return [("unparsable", str(e))] * n, ctx
    if not calls:
        after_calls = [None] * n
    if len(after_calls) != n:
        return [("call-count-changed", "%d -> %d" % (n, len(after_calls)))] * n, ctx
    rx = None
    if want_reexec:
        rx = reexec({"test_something.py": after})["test_something.py"]
        if rx["module_error"]:
            return [("reexec-module-error", rx["module_error"])] * n, ctx
    out = []
    for i, c in enumerate(cases):
        t = rx["tests"].get("test_%d" % i, "missing") if rx else None
        out.append(analyze(c, i, before_calls[i], after_calls[i], t, ctx))
    return out, ctx


def run_batched(cases, judge, label=None, key=None, sig=None, strict_batch=False):
    """judge(list_of_cases) -> (verdicts, ctx). Returns a task-result dict.
    strict_batch: a site that is wrong only when the other sites of the batch are in the same file is a violation as well (the
    file with all its sites is a legitimate test program; something computed for one site leaked into another). Only for
    checks whose sites cannot influence each other through the harness itself."""
    out = {"n": 0, "nontrivial": [], "outcomes": {}, "violations": [], "samples": []}
    verdicts, ctx = judge(cases)
    for c, v in zip(cases, verdicts):
        out["n"] += 1
        if v is not None:
            sv, sctx = judge([c])
            v = sv[0]
            if v is None:
                out["outcomes"]["ok-alone-only"] = out["outcomes"].get("ok-alone-only", 0) + 1
                if strict_batch(c) if callable(strict_batch) else strict_batch:
                    i = cases.index(c)
                    bv = verdicts[i]
                    out["violations"].append({"case": {"batch": cases, "index": i}, "what": "only-next-to-other-sites:" + bv[0],
                                              "detail": "site %d is right in a file of its own but not in this file with %d sites: %s\n--- site ---\n%s" % (
                                                  i, len(cases), bv[1][:600], repr(c)[:300])})
        if v is not None:
            # (judged alone in this process, after the batch: state the batch left behind in the library may still be at work;
            #  should a fresh process not reproduce the single site, the engine replays the whole batch instead)
            viol = {"case": c, "what": v[0], "detail": v[1], "context_case": {"batch": cases, "index": cases.index(c)}}
            if sig:
                viol["sig"] = sig(c, v)
            out["violations"].append(viol)
            lab = "viol:" + v[0]
        else:
            out["nontrivial"].append(key(c) if key else repr(sorted(c.items())))
            lab = label(c) if label else "ok"
        out["outcomes"][lab] = out["outcomes"].get(lab, 0) + 1
    if cases:
        out["samples"].append({"case": cases[0], "module_excerpt": ctx.get("src", "")[-400:]})
    return out


def replay(case, judge, sig=None):
    if "batch" in case:
        vs, ctx = judge(case["batch"])
        bv = vs[case["index"]]
        if bv is None:
            return []
        return [{"case": case, "what": "only-next-to-other-sites:" + bv[0], "detail": bv[1][:600]}]
    v, ctx = judge([case])
    if v[0] is None:
        return []
    viol = {"case": case, "what": v[0][0], "detail": v[0][1] + "\n--- module ---\n" + ctx.get("src", "")[-1500:] + "\n--- after ---\n" + ctx.get("after", "")[-1500:]}
    if sig:
        viol["sig"] = sig(case, v[0])
    return [viol]
