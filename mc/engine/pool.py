"""Fork pool: every task runs in a child freshly forked from the (warm, pristine) parent.

The parent imports the heavy libraries once and never executes a session itself, so
module globals of inline_snapshot / black / pytest are pristine in every child
(DESIGN.md 1.1).  No multiprocessing.Pool: it replaces sys.stdin by a /dev/null object.
"""
from __future__ import annotations

import os
import pickle
import selectors
import signal
import sys
import time
import traceback


def _child(fn, task, wfd, quiet):
    try:
        if quiet:
            dn = os.open(os.devnull, os.O_WRONLY)
            os.dup2(dn, 1)
            if not os.environ.get("MC_DEBUG"):
                os.dup2(dn, 2)
            os.close(dn)
        cov = _start_coverage()
        try:
            res = ("ok", fn(task))
        except BaseException:
            res = ("exc", traceback.format_exc())
        if cov is not None:
            cov.stop()
            cov.save()
        try:
            data = pickle.dumps(res)
        except Exception:
            data = pickle.dumps(("exc", "unpicklable result: " + traceback.format_exc()))
        with os.fdopen(wfd, "wb") as f:
            f.write(data)
        try:
            sys.stdout.flush()
            sys.stderr.flush()
        except Exception:
            pass
    finally:
        os._exit(0)


def _start_coverage():
    """Opt-in (MC_COVERAGE_DIR): records which lines / branches of the library the exploration executes.
    Used by tools/coverage_gaps.py to find behaviour no check reaches; never on in registered commands."""
    global _COV
    d = os.environ.get("MC_COVERAGE_DIR")
    if not d:
        return None
    import coverage

    repo = os.environ.get("MC_REPO", "/repo")
    cov = coverage.Coverage(data_file=os.path.join(d, "c.%d" % os.getpid()), branch=True,
                            include=[repo + "/src/inline_snapshot/*"], config_file=False)
    cov.start()
    _COV = cov
    return cov


_COV = None


def coverage_after_fork():
    """In a grandchild (drivers.plugin.session): continue tracing into a data file of its own."""
    global _COV
    if _COV is not None:
        _COV.stop()
        _COV = None
        _start_coverage()


def coverage_save():
    if _COV is not None:
        _COV.stop()
        _COV.save()


def run_tasks(fn, tasks, nproc=None, timeout=900, quiet=True, progress=None):
    """Run fn(task) for every task, each in its own forked child. Returns list of
    ("ok", result) | ("exc", traceback) | ("timeout", None) | ("died", status) in task order."""
    nproc = nproc or int(os.environ.get("MC_NPROC", "0")) or os.cpu_count() or 4
    results = [None] * len(tasks)
    pending = list(range(len(tasks)))[::-1]
    running = {}  # rfd -> [idx, pid, chunks, deadline]
    sel = selectors.DefaultSelector()
    done = 0
    sys.stdout.flush()
    sys.stderr.flush()
    while pending or running:
        while pending and len(running) < nproc:
            idx = pending.pop()
            r, w = os.pipe()
            pid = os.fork()
            if pid == 0:
                os.close(r)
                for rf in running:
                    try:
                        os.close(rf)
                    except OSError:
                        pass
                signal.signal(signal.SIGINT, signal.SIG_DFL)
                _child(fn, tasks[idx], w, quiet)
            os.close(w)
            running[r] = [idx, pid, [], time.time() + timeout]
            sel.register(r, selectors.EVENT_READ)
        events = sel.select(timeout=1.0)
        for key, _ in events:
            r = key.fd
            ent = running[r]
            data = os.read(r, 1 << 20)
            if data:
                ent[2].append(data)
                continue
            sel.unregister(r)
            os.close(r)
            _, st = os.waitpid(ent[1], 0)
            buf = b"".join(ent[2])
            if buf:
                try:
                    results[ent[0]] = pickle.loads(buf)
                except Exception:
                    results[ent[0]] = ("exc", "bad pickle from child")
            else:
                results[ent[0]] = ("died", st)
            del running[r]
            done += 1
            if progress:
                progress(done, len(tasks))
        now = time.time()
        for r, ent in list(running.items()):
            if now > ent[3]:
                try:
                    os.kill(ent[1], signal.SIGKILL)
                except OSError:
                    pass
                sel.unregister(r)
                os.close(r)
                os.waitpid(ent[1], 0)
                results[ent[0]] = ("timeout", None)
                del running[r]
                done += 1
    return results


def run_one(fn, task, timeout=900, quiet=True):
    return run_tasks(fn, [task], nproc=1, timeout=timeout, quiet=quiet)[0]
