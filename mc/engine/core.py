"""Runs one check: build tasks -> fork pool -> aggregate -> known findings -> confirm by replay
-> evidence file -> output contract (VIOLATION / KNOWN-FINDING lines, exit status)."""
from __future__ import annotations

import collections
import hashlib
import importlib
import json
import os
import random
import subprocess
import sys
import time

VERIF = os.path.dirname(os.path.dirname(os.path.dirname(os.path.abspath(__file__))))
PY = sys.executable


def load_known():
    p = os.path.join(VERIF, "known_findings.json")
    if not os.path.exists(p):
        return []
    with open(p) as f:
        return json.load(f)


def jdump(obj):
    return json.dumps(obj, sort_keys=True, default=repr, ensure_ascii=False)


def case_hash(prop, case):
    return hashlib.sha256((prop + jdump(case)).encode()).hexdigest()[:16]


class Agg:
    def __init__(self):
        self.n = 0
        self.nontrivial = set()
        self.outcomes = collections.Counter()
        self.violations = []
        self.samples = []
        self.states = set()
        self.transitions = 0
        self.validated = 0
        self.extra = collections.Counter()
        self.sets = collections.defaultdict(set)
        self.notes = []

    def add(self, r):
        self.n += r.get("n", 0)
        self.nontrivial.update(r.get("nontrivial", ()))
        self.outcomes.update(r.get("outcomes", {}))
        self.violations.extend(r.get("violations", ()))
        if len(self.samples) < 6:
            self.samples.extend(r.get("samples", ())[: 6 - len(self.samples)])
        self.states.update(r.get("states", ()))
        self.transitions += r.get("transitions", 0)
        self.validated += r.get("validated", 0)
        self.extra.update(r.get("extra", {}))
        for k, v in r.get("sets", {}).items():
            self.sets[k].update(v)
        self.notes.extend(r.get("notes", ()))


def run_check(modname, tier, seed, only_case=None):
    from ..drivers import warm  # noqa: F401  ensures warm imports + repo assertion
    from . import pool

    check = importlib.import_module(modname)
    prop = check.ID
    t0 = time.time()
    capped = False
    budget = float(os.environ.get("MC_BUDGET_S", "0") or 0)
    tmo = getattr(check, "TASK_TIMEOUT", 900)

    def runner(ts):
        return pool.run_tasks(check.run_task, ts, timeout=tmo)

    if hasattr(check, "explore"):
        pairs = check.explore(tier, seed, runner)
        tasks = [t for t, _ in pairs]
        results = [r for _, r in pairs]
        completed = len(results)
    else:
        tasks = check.build(tier, seed)
        order = list(range(len(tasks)))
        if seed:
            random.Random(seed).shuffle(order)
        tasks = [tasks[i] for i in order]
        if budget:
            # run in slices so that a wall-clock cap leaves a well-defined completed prefix
            results = []
            step = max(16, len(tasks) // 50)
            i = 0
            while i < len(tasks):
                if time.time() - t0 > budget:
                    capped = True
                    break
                results.extend(runner(tasks[i : i + step]))
                i += step
        else:
            results = runner(tasks)
        completed = len(results)

    agg = Agg()
    harness_errors = []
    for t, r in zip(tasks, results):
        if r is None or r[0] != "ok":
            harness_errors.append((t, r))
            continue
        agg.add(r[1])

    if os.environ.get("MC_DUMP"):
        with open(os.environ["MC_DUMP"], "w") as f:
            json.dump(agg.violations, f, indent=1, default=repr, ensure_ascii=False)
    known = [k for k in load_known() if k.get("status") == "known" and prop in k.get("properties", [k.get("property")])]
    known_sigs = {k["sig"]: k for k in known}
    known_hits = collections.defaultdict(list)
    unknown = []
    for v in agg.violations:
        s = v.get("sig")
        if s and s in known_sigs:
            known_hits[s].append(v)
        else:
            unknown.append(v)

    # confirm unknown violations by replay in a fresh child (first ones also in a cold interpreter)
    nondeterministic = []
    confirmed = []
    seen_keys = set()
    repdir = os.environ.get("MC_REPLAY_DIR") or os.path.join(VERIF, "replays")
    os.makedirs(os.path.join(repdir, prop), exist_ok=True)
    for v in unknown:
        key = (v.get("what"), jdump(v.get("case")))
        if key in seen_keys:
            continue
        seen_keys.add(key)
        if len(confirmed) >= int(os.environ.get("MC_MAX_REPORT", "12")):
            confirmed.append((v, None))
            continue
        rr = pool.run_one(check.run_case, v["case"], timeout=getattr(check, "TASK_TIMEOUT", 900))
        again = rr[1] if rr[0] == "ok" else None
        if (again is None or not any(a.get("what") == v.get("what") for a in again)) and v.get("context_case"):
            # the site is right in a process of its own: replay it inside the program it failed in (the whole batch file)
            rr2 = pool.run_one(check.run_case, v["context_case"], timeout=getattr(check, "TASK_TIMEOUT", 900))
            again2 = rr2[1] if rr2[0] == "ok" else None
            if again2 and any(a.get("what", "").endswith(str(v.get("what"))) for a in again2):
                v = dict(v, case=v["context_case"], what=again2[0].get("what"))
                v.pop("context_case", None)
                again = again2
        if again is None or not any(a.get("what") == v.get("what") for a in again):
            nondeterministic.append((v, rr))
            continue
        path = os.path.join(repdir, prop, case_hash(prop, v["case"]) + ".json")
        with open(path, "w") as f:
            json.dump({"property": prop, "check": modname, "case": v["case"], "what": v.get("what"),
                       "detail": v.get("detail")}, f, indent=1, default=repr, ensure_ascii=False)
        confirmed.append((v, path))

    wall = time.time() - t0
    cov = {
        "evaluations": agg.n,
        "distinct_nontrivial": len(agg.nontrivial),
        "rule": getattr(check, "RULE", ""),
        "samples": agg.samples[:6] or ["<none>"],
        "exhaustive": (not capped) and not harness_errors,
        "tasks": len(tasks),
        "tasks_completed": completed,
        "distinct_outcomes": len(agg.outcomes),
        "outcomes": dict(sorted(agg.outcomes.items(), key=lambda kv: -kv[1])[:40]),
        "bounds": check.bounds(tier) if hasattr(check, "bounds") else {},
        "known_findings_met": {s: len(vs) for s, vs in known_hits.items()},
    }
    if agg.states or check.LEVEL == "model_checking":
        cov["states"] = len(agg.states)
        cov["transitions"] = agg.transitions
        cov["traces_validated_against_impl"] = agg.validated
    for k, v in agg.extra.items():
        cov[k] = v
    for k, v in agg.sets.items():
        cov["distinct_" + k] = len(v)
    if agg.notes:
        cov["notes"] = sorted(set(agg.notes))[:20]
    if capped:
        cov["cap"] = "wall-clock budget %ss hit after %d of %d tasks (deterministic order)" % (budget, completed, len(tasks))
    if hasattr(check, "finish"):
        check.finish(agg, cov, tier)
    ev = {
        "property_id": prop,
        "tier": tier,
        "seed": seed,
        "level": check.LEVEL,
        "coverage": cov,
        "assumptions": list(getattr(check, "ASSUMPTIONS", [])),
        "wall_s": round(wall, 2),
        "violations": len(confirmed),
    }
    evdir = os.environ.get("MC_EVIDENCE_DIR") or os.path.join(VERIF, "evidence")
    os.makedirs(evdir, exist_ok=True)
    evp = os.path.join(evdir, prop + ".json")
    with open(evp, "w") as f:
        json.dump(ev, f, indent=1, default=repr, ensure_ascii=False)
    evidence_ok = _validate(evp)

    print("%s tier=%s seed=%d tasks=%d cases=%d nontrivial=%d outcomes=%d wall=%.1fs" % (
        prop, tier, seed, len(tasks), agg.n, len(agg.nontrivial), len(agg.outcomes), wall))
    for s, vs in sorted(known_hits.items()):
        print("KNOWN-FINDING: property=%s %s [%s; met %d times, e.g. %s]" % (
            prop, known_sigs[s]["what"], s, len(vs), jdump(vs[0].get("case"))[:200]))
    status = 0
    for v, path in confirmed:
        if path is None:
            continue
        print("VIOLATION property=%s replay=%s" % (prop, path))
        print("  what: %s" % v.get("what"))
        print("  case: %s" % jdump(v.get("case"))[:600])
        if v.get("detail"):
            print("  detail: %s" % str(v.get("detail"))[:1200])
        status = 1
    more = sum(1 for _, p in confirmed if p is None)
    if more:
        print("  (+%d further distinct violations not replayed)" % more)
    if harness_errors:
        for n_, (t, r) in enumerate(harness_errors[:3]):
            print("HARNESS-ERROR task=%s result=%s" % (jdump(t)[:200], str(r)[-1500:] if n_ == 0 else str(r)[-200:]))
        print("HARNESS-ERROR count=%d" % len(harness_errors))
        status = status or 2
    if nondeterministic:
        for v, rr in nondeterministic[:5]:
            print("HARNESS-NONDETERMINISM what=%s case=%s replay-result=%s" % (
                v.get("what"), jdump(v.get("case"))[:400], str(rr)[:800]))
        status = status or 2
    if not evidence_ok:
        # (a tree on which nothing at all works yields no non-trivial case: violations above take precedence)
        status = status or 2
    if hasattr(check, "sanity"):
        msg = check.sanity(agg, cov, tier)
        if msg:
            print("HARNESS-VACUOUS %s" % msg)
            status = status or 2
    return status


def _validate(path):
    schema = "/root/.vp/EVIDENCE.schema.json"
    vt = "/opt/veriftools/pyvenv/bin/python"
    if not (os.path.exists(schema) and os.path.exists(vt)):
        return True
    code = (
        "import json,sys,jsonschema;"
        "jsonschema.validate(json.load(open(sys.argv[1])), json.load(open(sys.argv[2])))"
    )
    r = subprocess.run([vt, "-c", code, path, schema], capture_output=True, text=True)
    if r.returncode != 0:
        print("HARNESS-ERROR evidence does not validate: " + r.stderr[-800:])
        return False
    return True
