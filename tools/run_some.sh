#!/bin/bash
# usage: run_some.sh <tier> <seed> C05 C06 ...
tier=$1; export VERIF_SEED=$2; shift 2
cd "$(dirname "$0")/.."
for c in "$@"; do
  s=$(date +%s)
  out=$(/venv/bin/python -m mc.run $c --tier $tier 2>&1); rc=$?
  echo "$c rc=$rc $(($(date +%s)-s))s | $(echo "$out" | grep -E "^C[0-9]+ tier" | head -1) | $(echo "$out" | grep -cE "^VIOLATION") violations | $(echo "$out" | grep -E "^(HARNESS|KNOWN|VIOLATION|  what)" | head -3 | cut -c1-160 | tr '\n' ' ')"
done
