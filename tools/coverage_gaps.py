#!/venv/bin/python
"""Which lines / branches of the library does the exploration of the given checks never execute?
usage: coverage_gaps.py <tier> C01 C02 ...   (writes /tmp/mc-cov/<id>/, prints missing lines per file)
Only forked children are traced (cold subprocess sessions are not), so this under-reports; it is a gap finder."""
import os, shutil, subprocess, sys
import coverage

tier = sys.argv[1]
ids = sys.argv[2:]
root = "/tmp/mc-cov"
os.makedirs(root, exist_ok=True)
for c in ids:
    d = os.path.join(root, c)
    shutil.rmtree(d, ignore_errors=True)
    os.makedirs(d)
    env = dict(os.environ, MC_COVERAGE_DIR=d, MC_EVIDENCE_DIR=os.path.join(d, "ev"), MC_REPLAY_DIR=os.path.join(d, "rp"))
    r = subprocess.run(["/venv/bin/python", "-m", "mc.run", c, "--tier", tier], cwd="/verif", env=env, capture_output=True, text=True)
    print(c, "rc", r.returncode, r.stdout.strip().splitlines()[:1])
    cov = coverage.Coverage(data_file=os.path.join(d, "combined"), config_file=False, branch=True)
    cov.combine([os.path.join(d, f) for f in os.listdir(d) if f.startswith("c.")], keep=False)
    cov.save()
# lines executed at import time are run in the warm parent, not in a traced child: record them from a fresh interpreter
imp = os.path.join(root, "import", "combined")
os.makedirs(os.path.dirname(imp), exist_ok=True)
subprocess.run(["/venv/bin/python", "-c", (
    "import coverage,sys; sys.path.insert(0,'/repo/src'); c=coverage.Coverage(data_file=%r, config_file=False, branch=True, include=['/repo/src/inline_snapshot/*']); c.start();"
    "import pkgutil, importlib, inline_snapshot; [importlib.import_module(m.name) for m in pkgutil.walk_packages(inline_snapshot.__path__, 'inline_snapshot.')];"
    "c.stop(); c.save()") % imp], check=True, cwd="/tmp")
allc = coverage.Coverage(data_file=os.path.join(root, "all"), config_file=False, branch=True)
allc.combine([os.path.join(root, c, "combined") for c in os.listdir(root) if os.path.exists(os.path.join(root, c, "combined"))], keep=True)
allc.save()
allc.report(show_missing=True, file=sys.stdout)
