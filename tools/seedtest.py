#!/usr/bin/env python3
"""Seeded-defect bookkeeping.
  seedtest.py verify <src_dir> <seed_id> <property>   confirm a sub-agent's mutation in a scratch worktree and keep it as /verif/seeded/<seed_id>/
  seedtest.py run <seed_id> [check ids...]             apply the patch to /repo, run quick checks, undo, record detection in meta.json
"""
import glob, json, os, shutil, subprocess, sys, time

V = "/verif"
PY = "/venv/bin/python"


def sh(cmd, cwd=None, env=None, timeout=3600):
    r = subprocess.run(cmd, shell=True, cwd=cwd, env=env, capture_output=True, text=True, timeout=timeout)
    return r.returncode, (r.stdout + r.stderr)


def demo_cmd(d, tree):
    if os.path.exists(os.path.join(d, "demo.py")):
        return "cd %s && PYTHONPATH=%s/src %s %s/demo.py" % (tree, tree, PY, d)
    t = glob.glob(os.path.join(d, "test_demo*.py"))
    if t:
        return "cd %s && PYTHONPATH=%s/src %s -m pytest -q -p no:cacheprovider %s" % (d, tree, PY, t[0])
    raise SystemExit("no demo in " + d)


def verify(src, sid, prop):
    dst = os.path.join(V, "seeded", sid)
    os.makedirs(dst, exist_ok=True)
    for f in os.listdir(src):
        if os.path.isfile(os.path.join(src, f)):
            shutil.copy(os.path.join(src, f), dst)
    wt = "/tmp/wt/verify-" + sid
    sh("git -C /repo worktree remove --force %s" % wt)
    rc, out = sh("git -C /repo worktree add -q %s HEAD" % wt)
    assert rc == 0, out
    meta = {"seed": sid, "property": prop, "ran": [], "base_commit": sh("git -C /repo rev-parse --short HEAD")[1].strip()}
    try:
        rc0, out0 = sh(demo_cmd(dst, wt))
        meta["ran"].append({"cmd": "demo on clean tree", "rc": rc0})
        rc, out = sh("git apply %s/patch.diff" % dst, cwd=wt)
        meta["applies"] = rc == 0
        if rc != 0:
            meta["apply_error"] = out[-500:]
        else:
            rc1, out1 = sh(demo_cmd(dst, wt))
            meta["ran"].append({"cmd": "demo with patch", "rc": rc1, "tail": out1[-400:]})
            rcs, outs = sh("%s %s/tools/baseline.py %s" % (PY, V, wt))
            meta["ran"].append({"cmd": "pinned suite with patch", "rc": rcs, "tail": outs[-200:]})
            meta["confirmed"] = (rc0 == 0 and rc1 != 0 and rcs == 0)
    finally:
        sh("git -C /repo worktree remove --force %s" % wt)
        shutil.rmtree(wt, ignore_errors=True)
    notes = os.path.join(dst, "notes.md")
    meta["needs"] = open(notes).read()[:1500] if os.path.exists(notes) else ""
    json.dump(meta, open(os.path.join(dst, "meta.json"), "w"), indent=1)
    print(sid, "confirmed" if meta.get("confirmed") else "NOT CONFIRMED", json.dumps(meta["ran"])[:600])


def run(sid, checks):
    """Apply the seed in its own scratch worktree (never in /repo) and run the quick checks against it (MC_REPO)."""
    dst = os.path.join(V, "seeded", sid)
    meta = json.load(open(os.path.join(dst, "meta.json")))
    if not checks:
        checks = [meta["property"]]
    wt = "/tmp/wt/run-" + sid
    sh("git -C /repo worktree remove --force %s" % wt)
    os.makedirs("/tmp/wt", exist_ok=True)
    rc, out = sh("git -C /repo worktree add -q %s HEAD" % wt)
    assert rc == 0, out
    res = meta.setdefault("detection", {})
    try:
        rc, out = sh("git apply %s/patch.diff" % dst, cwd=wt)
        if rc != 0:
            print(sid, "patch does not apply:", out[-300:])
            meta["applies_to_head"] = False
            return
        meta["applies_to_head"] = True
        env = dict(os.environ, MC_REPO=wt, MC_EVIDENCE_DIR="/tmp/wt/ev-" + sid, MC_REPLAY_DIR="/tmp/wt/rp-" + sid)
        for c in checks:
            t = time.time()
            rc, out = sh("cd /verif && %s -m mc.run %s --tier quick" % (PY, c), env=env, timeout=3000)
            lines = [l for l in out.splitlines() if l.startswith(("VIOLATION", "HARNESS"))]
            res[c] = {"rc": rc, "detected": rc == 1, "wall": round(time.time() - t, 1),
                      "first": (lines[:1] + [l.strip()[:200] for l in out.splitlines() if l.startswith("  what")][:2])}
            print(sid, c, "rc=%d" % rc, "DETECTED" if rc == 1 else ("HARNESS-ERR" if rc == 2 else "missed"), lines[:1])
    finally:
        sh("git -C /repo worktree remove --force %s" % wt)
        shutil.rmtree(wt, ignore_errors=True)
        shutil.rmtree("/tmp/wt/ev-" + sid, ignore_errors=True)
        shutil.rmtree("/tmp/wt/rp-" + sid, ignore_errors=True)
        json.dump(meta, open(os.path.join(dst, "meta.json"), "w"), indent=1)


if __name__ == "__main__":
    if sys.argv[1] == "verify":
        verify(*sys.argv[2:5])
    else:
        run(sys.argv[2], sys.argv[3:])
