#!/bin/bash
# usage: take_seed.sh <property> <wave> <mN> ...  -- verify sub-agent output /tmp/wt/out-<property>-<wave>/<mN> and run the property's own quick check
prop=$1; wave=$2; shift 2
cd /verif
for m in "$@"; do
  sid="$prop-$m"
  python3 tools/seedtest.py verify /tmp/wt/out-$prop-$wave/$m $sid $prop 2>&1 | tail -1 | cut -c1-300
  python3 tools/seedtest.py run $sid 2>&1 | tail -2 | cut -c1-300
done
