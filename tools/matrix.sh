#!/bin/bash
# usage: matrix.sh own|all [parallelism]  -- run every seeded defect against its own check or all checks (scratch worktrees, never /repo)
mode=${1:-own}; par=${2:-2}
cd /verif
ALL="C01 C02 C03 C04 C05 C06 C07 C08 C09 C10 C11 C12 C13 C14 C15 C16 C17 C18 C19 C20"
for d in seeded/*/; do s=$(basename $d); if [ "$mode" = all ]; then echo "$s $ALL"; else echo "$s"; fi; done | xargs -P $par -L 1 python3 tools/seedtest.py run > /tmp/wt/matrix_$mode.log 2>&1
echo done >> /tmp/wt/matrix_$mode.log
