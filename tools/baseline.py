#!/venv/bin/python
"""Run the repository's pinned test command (guard OFF) and compare with BASELINE.json stable_pass.
usage: baseline.py [repo_dir]   exit 0 iff every stable_pass test passes."""
import json, os, subprocess, sys, tempfile
import xml.etree.ElementTree as ET

repo = sys.argv[1] if len(sys.argv) > 1 else "/repo"
b = json.load(open("/root/.vp/BASELINE.json"))
fd, path = tempfile.mkstemp(suffix=".xml")
os.close(fd)
env = {k: v for k, v in os.environ.items() if not k.startswith("INLINE_SNAPSHOT_VERIF")}
cmd = ["/venv/bin/python", "-m", "pytest", "-ra", "-q", "-p", "no:cacheprovider", "--timeout=900",
       "--continue-on-collection-errors", "--junitxml=" + path]
if repo != "/repo":
    env["PYTHONPATH"] = os.path.join(repo, "src")
r = subprocess.run(cmd, cwd=repo, env=env, capture_output=True, text=True)
passed = set()
for tc in ET.parse(path).getroot().iter("testcase"):
    ok = not any(c.tag in ("failure", "error", "skipped") for c in tc)
    if ok:
        passed.add(tc.get("classname") + "::" + tc.get("name"))
os.unlink(path)
missing = [t for t in b["stable_pass"] if t not in passed]
print("stable_pass=%d passed_now=%d missing=%d" % (len(b["stable_pass"]), len(passed), len(missing)))
for m in missing[:40]:
    print("  NOT PASSING:", m)
sys.exit(1 if missing else 0)
