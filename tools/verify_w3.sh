#!/bin/bash
# verify wave-3 mutations delivered in /tmp/wt/X<nn>/MUT/mut<k> as seeds C<nn>-m<k+2>
cd /verif
for d in /tmp/wt/X*/MUT/mut*; do
  [ -f "$d/patch.diff" ] || continue
  n=$(echo $d | sed -E 's#/tmp/wt/X([0-9]+)/MUT/mut([0-9]+)#\1#'); k=$(echo $d | sed -E 's#.*/mut([0-9]+)#\1#')
  sid="C$n-m$((k+2))"
  [ -f /verif/seeded/$sid/meta.json ] && continue
  [ -f /tmp/wt/v_$sid.lock ] && continue
  touch /tmp/wt/v_$sid.lock
  echo "$d $sid C$n"
done | xargs -P 3 -L 1 sh -c 'python3 /verif/tools/seedtest.py verify $0 $1 $2 > /tmp/wt/v_$1.log 2>&1'
