#!/bin/bash
# usage: run_all.sh quick|thorough [seed]   -- every check once, one summary line each
tier=${1:-quick}; export VERIF_SEED=${2:-0}
cd "$(dirname "$0")/.."
for c in C01 C02 C03 C04 C05 C06 C07 C08 C09 C10 C11 C12 C13 C14 C15 C16 C17 C18 C19 C20; do
  s=$(date +%s)
  out=$(/venv/bin/python -m mc.run $c --tier $tier 2>&1); rc=$?
  echo "$c rc=$rc $(($(date +%s)-s))s | $(echo "$out" | grep -E "^C[0-9]+ tier" | head -1) | $(echo "$out" | grep -cE "^VIOLATION") violations | $(echo "$out" | grep -E "^(HARNESS|KNOWN)" | head -2 | cut -c1-160 | tr '\n' ' ')"
done
