import json, glob, os, re, sys
wave = sys.argv[1]; names = sys.argv[2:]  # e.g. w4 m5 m6
props = {}
for l in open('/verif/properties.jsonl'):
    p = json.loads(l); props[p['id']] = p
taken = {}
for d in sorted(glob.glob('/verif/seeded/*/')):
    if not os.path.exists(d + 'meta.json'): continue
    m = json.load(open(d + 'meta.json'))
    patch = open(d + 'patch.diff').read()
    files = sorted(set(re.findall(r"^\+\+\+ b/(\S+)", patch, re.M)))
    hunks = sorted(set(re.findall(r"^@@ .* @@ (.*)$", patch, re.M)))
    taken.setdefault(m['property'], []).append("%s  [%s]" % (", ".join(files), "; ".join(h.strip() for h in hunks)[:160]))
for pid, p in props.items():
    wt = "/tmp/wt/a-%s-%s" % (pid, wave); out = "/tmp/wt/out-%s-%s" % (pid, wave)
    if not os.path.isdir(wt): continue
    txt = f"""# Assignment: seed realistic property-breaking changes into inline-snapshot

You work ONLY inside the scratch git worktree `{wt}` (a checkout of the library
15r10nk/inline-snapshot, a pytest plugin that records expected values and rewrites test source in
place). Never touch `/repo` and never read or use anything under `/verif`. Put your results under
`{out}/`.

## The property (this is all you are given)

**{p['title']}**

{p['statement']}

Quantified over: {p['quantifier']['text']}

Code the property is anchored in (starting points, not a limit): {", ".join(p['anchors']['files'])}

## What to produce

{len(names)} *different* changes to the library source (under `{wt}/src/inline_snapshot/`), one per
directory {", ".join("`%s/%s/`" % (out, n) for n in names)}. Each change must

1. **break the property above** for some input / program / configuration / history / fault, while
2. still importing fine and **passing the existing test suite unchanged**. The binding criterion is the pinned list of 478
   stable tests: `/venv/bin/python /tmp/wt/baseline.py {wt}` must exit 0 and print `missing=0` (2-4 minutes). (A plain
   `cd {wt} && PATH=/venv/bin:$PATH PYTHONPATH={wt}/src /venv/bin/python -m pytest -q -p no:cacheprovider -n 8` is faster for feedback, but ~15 tests
   fail there even on the clean tree because dirty_equals is not installed; compare failing sets.) Do not edit any test, and
3. look like something that could really slip through review: a refactoring, an optimisation, a
   "simplification", a cache, a reordered statement, an off-by-one in cursor/offset logic, state hoisted to
   module/class level, a guard that became slightly too wide or too narrow, an error path that swallows or
   reorders something. No sabotage that jumps out (no `if value == 42`), no dead code.
4. need **something specific to manifest** - not something the first ordinary use would expose: a multi-step
   history of sessions, a particular sequence/interleaving of comparisons or call sites, a fault at one particular
   point, an unusual but legitimate input shape (nesting, position in a container, a specific type mix, a particular
   file layout or configuration), or two cooperating sites that each look fine alone. Prefer subtle over blatant.
   The two changes should be in different functions (better: different files) and have different triggers.

Changes of this kind already exist for this property - do something **different** from these (other function or other trigger):
{chr(10).join("- " + t for t in taken.get(pid, []))}

For each change write into its directory:
- `patch.diff` - `git -C {wt} diff` of that change alone against the clean HEAD (only files under `src/`), must apply with `git apply` on a clean checkout;
- a demonstration: either `demo.py` (run as `cd <tree> && PYTHONPATH=<tree>/src /venv/bin/python <dir>/demo.py`, exit status 0 = property holds,
  non-zero = broken) or `test_demo.py` (run as `cd <dir> && PYTHONPATH=<tree>/src /venv/bin/python -m pytest -q -p no:cacheprovider test_demo.py`).
  It must **pass on the clean tree and fail with the change**. It must be self-contained (create its own temp dirs, run real pytest
  sessions via subprocess or `inline_snapshot.testing.Example` as needed), and must take `<tree>` from `PYTHONPATH`/imports, not hard-code paths into `{wt}`;
- `notes.md` - first line: file and function changed; then: which clause of the property breaks, exactly what is needed for it to manifest
  (the minimal failing input / history / fault), and why the existing tests do not see it.

Never use `git stash` (it is shared between all worktrees of the repository and other agents work in parallel). Work one change at a time: edit, run the suite, run the demo, save `git diff > patch.diff`, then `git -C {wt} checkout -- .` before
starting the next one, and verify the demo passes again on the clean tree. Leave the worktree clean (`git status` empty) at the end.
`/venv/bin/python` (3.12) has pytest, black, pydantic, attrs, dirty-equals, pytest-xdist installed; there is no network. `pytest` is not on PATH,
use `/venv/bin/python -m pytest`. If a change you try makes an existing test fail, it is not acceptable - try another one.

Finish with a short report: for each change, one paragraph (what, where, trigger) and the exact commands you ran with their outcomes
(suite result with the change, demo result with and without the change).
"""
    open(out + "/ASSIGNMENT.md", "w").write(txt)
    for n in names: os.makedirs(out + "/" + n, exist_ok=True)
print("ok")
