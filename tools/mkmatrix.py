#!/usr/bin/env python3
"""Prints the seeded-defect detection table (markdown) from /verif/seeded/*/meta.json."""
import glob, json, os, re

rows = []
for d in sorted(glob.glob("/verif/seeded/*/")):
    mp = os.path.join(d, "meta.json")
    if not os.path.exists(mp):
        continue
    m = json.load(open(mp))
    sid = m["seed"]
    patch = open(os.path.join(d, "patch.diff")).read()
    files = sorted(set(os.path.basename(f) for f in re.findall(r"^\+\+\+ b/(\S+)", patch, re.M)))
    det = m.get("detection", {})
    hit = sorted(c for c, r in det.items() if r.get("detected"))
    miss = sorted(c for c, r in det.items() if not r.get("detected"))
    notes = m.get("needs", "").strip().splitlines()
    first = next((l.strip("# ").strip() for l in notes if l.strip() and not l.startswith("#")), "")[:110]
    rows.append((sid, m["property"], ", ".join(files), "yes" if m.get("confirmed") else "NO", ", ".join(hit) or "-", ", ".join(miss) or "-", first))
print("| seed | property | files changed | confirmed (demo fails with / passes without, suite passes) | detected by (quick tier) | run but not detected by | what it needs |")
print("|---|---|---|---|---|---|---|")
for r in rows:
    print("| " + " | ".join(r) + " |")
print("\n%d seeds, %d detected by at least one check, %d by the check of their own property" % (
    len(rows), sum(1 for r in rows if r[4] != "-"), sum(1 for r in rows if r[1] in r[4].split(", "))))
