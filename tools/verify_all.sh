#!/bin/bash
# verify every delivered sub-agent mutation that has no meta.json yet (4 in parallel)
cd /verif
for d in /tmp/wt/C*/MUT/mut*; do
  [ -f "$d/patch.diff" ] || continue
  p=$(echo $d | sed -E 's#/tmp/wt/(C[0-9]+)/MUT/mut([0-9]+)#\1#'); k=$(echo $d | sed -E 's#.*/mut([0-9]+)#\1#')
  sid="$p-m$k"
  [ -f /verif/seeded/$sid/meta.json ] && continue
  [ -f /tmp/wt/v_$sid.lock ] && continue
  touch /tmp/wt/v_$sid.lock
  echo "$d $sid $p"
done | xargs -P 4 -L 1 sh -c 'python3 /verif/tools/seedtest.py verify $0 $1 $2 > /tmp/wt/v_$1.log 2>&1'
