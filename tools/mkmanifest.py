#!/usr/bin/env python3
"""Regenerates /verif/MANIFEST.json from the table below and validates it against the schema."""
import json, os, subprocess, sys

V = os.path.dirname(os.path.dirname(os.path.abspath(__file__)))
RUN = "cd /verif && /venv/bin/python -m mc.run %s --tier %s"

# id: (level category, technique, level text, level note, design ref)
CHECKS = {
    "C01": ("exploration",
            "bounded-exhaustive enumeration of value x operation x placement x layout, real code run on each, re-execution oracle",
            "Every (value, operation, placement, layout) of a stated finite universe is run through the real create path and the rewritten module is re-executed with inline-snapshot inactive; exhaustive within the bounds, so a wrong literal for any enumerated shape is found, not sampled.",
            "Bounds of the value universe (depth/width, atom list in mc/gen/values.py); Example.run_inline as driver (bound to the real plugin by C19) plus a real-plugin slice (create session, then a --inline-snapshot=disable session) for values that need an inserted import under five import-block shapes; CPython 3.12, black 26.5.1.",
            "DESIGN.md 5/C01"),
    "C05": ("model_checking",
            "explicit-state BFS over (operation, snapshot argument) states with every (observation script, approved subset) action executed as a real session; lock-step conformance with an independent executable model of the category algebra",
            "States are snapshot arguments, the transition function is the real code (one session per transition), and an independent model predicts reported categories and next state for every transition; reached states are expanded again up to the depth bound, so histories are covered, not single steps.",
            "Integer/short-string domains, observation scripts of length <= 3, depth bound (quick 2, thorough 3); model rules are DESIGN.md Appendix A.1; run_inline as driver (bound to the plugin by C19).",
            "DESIGN.md 5/C05, A.1"),
    "C07": ("exploration",
            "bounded-exhaustive enumeration of program shape x bad-site position x operation x flag configuration, each a real pytest session, generator-known expected outcome",
            "Every combination of a small program family with every category subset and reporting mode is run as a real pytest session; the oracle (which tests execute a bad snapshot) is known by construction, so one operation/flag cell that fails to mark the test is found deterministically.",
            "Program family of mc/checks/c07.py; pytest 9.1.1 on CPython 3.12; outcomes parsed from -rA lines.",
            "DESIGN.md 5/C07"),
    "C02": ("exploration",
            "bounded-exhaustive enumeration of (previous argument text in hand layouts, new value) pairs and multi-snapshot test bodies; one create+fix session each; re-execution oracle",
            "All ordered pairs of a ~110-value universe (x layouts) and all k-tuples of a 14-statement menu are repaired in one real run and re-executed with inline-snapshot inactive; exhaustive within the bounds.",
            "Universe/menu in mc/checks/c02.py; Example.run_inline as driver; self-contradicting tests and user-controlled parts excluded as the property says.",
            "DESIGN.md 5/C02"),
    "C11": ("exploration",
            "exhaustive enumeration of all sequence pairs over 3 symbols up to length 4/5 and all key-map pairs; fix-only session; independent LCS oracle; direct exhaustive probe of align()",
            "Every pair of short sequences (and every pair of small key maps) is fixed by the real code and the surviving element texts are compared with an independent LCS / prefix / suffix computation; complete for the stated lengths.",
            "3 symbols, length <= 4 (quick) / 5 (thorough); hand-written element text distinguishes survivors from regenerated code.",
            "DESIGN.md 5/C11"),
    "C12": ("exploration",
            "exhaustive enumeration of all strings up to length 3-5 over an adversarial alphabet x position x formatter configuration; literal_eval oracle on the written argument",
            "Every string of the bounded language is written by the real code in seven positions and under black / no black / format-command, and the literal found in the file is evaluated independently.",
            "12-character alphabet incl. quotes, backslash, CR, LF, NUL, U+2028, astral; length bound; boundary-string families (single- and multi-line); two-session histories in which a sibling of the written literal is edited; black 26.5.1.",
            "DESIGN.md 5/C12"),
    "C06": ("exploration",
            "bounded-exhaustive differential enumeration: stored value x compared-value sequences (AST one-edit neighbours) x operation spellings; active-no-flags vs snapshot:=identity vs inactive state",
            "Every program of the bounded family is executed three ways and the per-comparison logs must agree wherever plain Python does not raise; all ordered pairs of operations on one snapshot must raise TypeError.",
            "Stored-value list and neighbour function in mc/checks/c06.py; bounds only on totally ordered kinds; dirty-equals absent. Disabled modes (disable flag, CI variables, xdist, xfail at function / class / module level, xfail followed by plain tests) are probed through real sessions with active-session controls.",
            "DESIGN.md 5/C06"),
    "C08": ("model_checking",
            "state graph s0 -F-> s1 -F-> s2 for every initial program and every approved subset F; second transition must be a self-loop; real double pytest sessions for a slice",
            "Histories of identical sessions are executed from every enumerated initial program under all 16 approved sets and the second transition is required to be a self-loop on the file state (plus: nothing left to create/fix/trim after full approval).",
            "Initial programs of mc/checks/c08.py (tricky reprs, hand layouts, slack, wrong, empty, externals); an internally noted update with an empty diff is allowed (DESIGN.md C08 scope). Real double sessions include a second file and a history with the bytecode cache switched on (sources dated back so that the unchanged tree is deterministic).",
            "DESIGN.md 5/C08"),
    "C04": ("model_checking",
            "exhaustive exploration of the configuration space (flag sources x subsets x modes x all review answer vectors x CI/xdist/tty/xfail environments), every point a real pytest session; conformance with an independent flag-resolution model and differential comparison with CLI-only reference sessions",
            "Every configuration of the stated product is executed as a real session; the model predicts usage errors and the approved set, the resulting directory must equal the CLI-only session for that set, carry exactly its category markers and be byte-identical when nothing is approved.",
            "Model rules DESIGN.md A.2; tty emulated with FORCE_COLOR; quick: one program with all four categories plus externals, thorough: four programs.",
            "DESIGN.md 5/C04, A.2"),
    "C03": ("exploration",
            "bounded-exhaustive enumeration of same-line site pairs/triples x line styles x approved sets plus a real-plugin core (import-block shapes, newline variants, clean files, format-command); independent skeleton / masked-AST oracle",
            "Every pair of 25 site kinds on one physical line, in six line styles and under several approved sets, is rewritten by the real code; call parentheses are located with CPython's ast (no asttokens) and everything outside them must be byte-identical (or AST-identical when the file is re-formatted).",
            "Site kinds/styles of mc/checks/c03.py; black 26.5.1 decides clean-ness on the harness side; one known finding (CRLF/CR normalised to LF) with a residual test.",
            "DESIGN.md 5/C03"),
    "C17": ("exploration",
            "bounded-exhaustive enumeration of mutation schedules (shape x operation x all action sequences over {compare, mutation kinds}) against an alias-free deep-copying recorder run on the same generated module",
            "Every schedule of comparisons and mutations up to the length bound is executed by the real code and by an alias-free recorder; the value evaluated from the rewritten file must be the comparison-time value. Non-copyable values must raise UsageError and record nothing.",
            "9 mutable shapes incl. tuples/namedtuples holding lists; sequences of length <= 3 (quick) / 4 (thorough); create and fix-from-previous modes.",
            "DESIGN.md 5/C17"),
    "C14": ("model_checking",
            "exhaustive enumeration of event schedules (all interleavings of <= L evaluations over 2-3 call sites) x site placements x operation tuples, executed in scripted order by the real code; independent per-site fold as reference model",
            "Every interleaving of evaluations over the call sites of a program (up to the length bound) is executed for every placement of the sites (same line, lambdas, nested functions, comprehension, helper, module-level shared, identical text in two files) and the per-site results are compared with a fold computed from the script alone; a changed argument must fail the test.",
            "values {0,1,2}; L=3 quick / 4 thorough; cross-file sharing, parametrized tests and a cross-file isolation differential (a file alone vs. together with other files) through real sessions.",
            "DESIGN.md 5/C14"),
    "C16": ("exploration",
            "exhaustive enumeration of small sets/frozensets over mixed and partially ordered elements x all insertion orders x construction methods, each PYTHONHASHSEED x formatter configuration a cold interpreter process; cross-process text / AST equality",
            "Every value of the bounded family is created by real cold pytest processes under several hash seeds and formatter configurations; texts must be identical across seeds, orders and methods, ASTs identical across formatters.",
            "8-12 element alphabet, sets up to size 3/4; seeds 0..5 (quick) / 0..31 (thorough); black absence simulated by a project-local black.py raising ImportError.",
            "DESIGN.md 5/C16"),
    "C18": ("exploration",
            "bounded-exhaustive enumeration of 'something went wrong earlier' program shapes (and pairs of them) x all 16 approved sets in both drivers; oracle: the finish phase returns without internal error and the files parse",
            "Every shape of a catalogue of misbehaving-but-documented test bodies is run under every approved set through Example.run_inline and under a slice through real pytest sessions; any exception escaping the finish phase, INTERNALERROR or unparsable result is a violation.",
            "63 shapes in mc/checks/c18.py (failing/raising tests, never-compared snapshots, inner snapshots under replaced/deleted/aligned parents, raising comparisons, container-end layouts); `in`/[k] only on list/dict displays.",
            "DESIGN.md 5/C18"),
    "C10": ("exploration",
            "bounded-exhaustive enumeration of containers mixing managed and user-controlled slots (10 slot kinds, n <= 3, 7 container shapes) x observed shapes x approved sets, plus star-expression containers; verbatim-survival oracle on independently located source segments",
            "Every placement of Is(), f-strings and inner snapshot() among managed slots, for every observed length change and approved set, is rewritten by the real code; the unmanaged source segments (located with ast, not asttokens) must survive verbatim as a subsequence, inner snapshots change only through their own approved change, starred containers survive verbatim, managed siblings are repaired.",
            "dirty-equals absent; inner snapshots are compared positionally by the container (scope note in DESIGN.md C10).",
            "DESIGN.md 5/C10"),
    "C09": ("model_checking",
            "explicit state graph per program: all |P|! orders of single-category sessions (shared prefixes executed once) plus the joint session; terminal states compared by syntax tree; programs enumerated from slot assignments over five container shapes and separate call sites",
            "For every enumerated program with >= 2 pending categories all approval orders are executed as real sessions and must converge to one syntax tree (confluence checked exhaustively per program, not sampled).",
            "<= 3 slots per container; observations recorded instead of asserted (DESIGN.md C09 scope); 12 (quick) / 80 (thorough) programs also through real pytest sessions.",
            "DESIGN.md 5/C09"),
    "C19": ("exploration",
            "exhaustive product of a program catalogue x all 16 category subsets, each executed by three separately coded drivers (run_inline, run_pytest, real session); three-way equality of changed files and reported categories; fork server validated against cold processes",
            "For every program and every category subset the in-process helper, the subprocess helper and a real pytest session are executed and must produce the same changed files and category reports.",
            "12 (quick) / 18 (thorough) programs without externals; an update with an empty diff is only visible to run_inline and tolerated.",
            "DESIGN.md 5/C19"),
    "C20": ("exploration",
            "bounded-exhaustive sweep: 24 black option combinations x 11 change kinds x argument sizes crossing the wrap limit, clean files and not-clean twins; independent black fixed-point oracle / skeleton oracle",
            "Each case rewrites a file that the harness made black-clean under the configured mode and the result must be a fixed point of an independently constructed black.Mode; the not-clean twin must keep its layout outside the edited arguments.",
            "black 26.5.1; configuration read from the project directory (cwd); formatter instability is recorded separately; project-level real sessions: a format-command that fails for one of two files, and a nested project whose rootdir has its own pyproject.toml.",
            "DESIGN.md 5/C20"),
    "C13": ("model_checking",
            "explicit-state BFS over session histories (edit payload, add/remove test file, sessions with flag sets, review answer vectors) with state deduplication, every session transition a real pytest session; lock-step conformance with an independent storage model; invariants in every state; exhaustive lookup probes",
            "All histories up to the depth bound are explored from two initial states under several hash-length / storage-dir configurations; the storage model predicts listing and references of every transition and five invariants (name = sha256, persisted only with reference, -new pruned, removal only by approved trim of unreferenced data, written reference resolves uniquely) hold in every reached state.",
            "Depth 2 (quick, main configuration) to 4 (thorough); payloads without prefix collisions; lookup clause probed directly on DiscStorage.read.",
            "DESIGN.md 5/C13, A.3"),
    "C15": ("fault_enumeration",
            "exhaustive single-fault enumeration: every call made at seven library/stdlib boundaries during pytest_sessionfinish (counted by a recording run) x every fault kind of that boundary, each a real session followed by a plain session; old-or-complete-new and external-resolution oracle",
            "Every intercepted call on the path from 'changes computed' to 'files written' is faulted once with every applicable fault kind (exception, process exit before/after/mid-call, non-zero exit, unparsable / truncated / non-UTF-8 formatter output) in a multi-file change set with externals; thorough adds 1- and 2-file change sets.",
            "Boundaries patched in the harness child (no repo hook); new content compared by syntax tree; one known finding (non-atomic in-place write) with a residual test.",
            "DESIGN.md 5/C15"),
}

# families added in the second build session (DESIGN.md 13.2); appended to the level note of each check
LATER = {
    "C01": "atoms incl. negative numbers, complex values with negative zeros, classes nested in classes; several test files in one real session (which file needs an added import); empty containers under keys",
    "C02": "subclass instances against base-class constructor calls; previous argument spelled through a lambda call / builtin constructors; nested snapshots behind a wrong element; a first test whose new value has a raising __repr__ before tests that look at repr()",
    "C03": "already-imported names in unusual places; UTF-8 BOM and latin-1 / cp1252 coding cookies; ASCII-locale cold sessions; five failing format-command modes; values not encodable in a single-byte source encoding; test file reached through a symbolic link; callee spellings with attribute access / parentheses",
    "C04": "skip-snapshot-updates-for-now; several xfail marks on one test (stacked, inherited + own); the values CI systems really put into their variables; late imports",
    "C05": "bounds over a partial order (sets by inclusion); constructor calls in keyword / positional spelling; values whose == is not symmetric with their HasRepr stand-in",
    "C06": "real-session differential (no flags / report vs. disable) over re-evaluated call sites with inner snapshots / Is() in defaulted fields; star containers at depth 0-2 re-evaluated",
    "C07": "comparisons in other threads, sites without source, nested in-process sessions; one call site shared by tests over every short value sequence; session histories with the bytecode cache on (owned clock)",
    "C08": "every atom of the value universe in the quick tier; lambda / constructor spellings; double sessions over import shapes; objects modified after the comparison; bytecode-cache history",
    "C09": "namedtuple / attrs call shapes, four-slot calls, deleted elements holding several updates; multi-file projects through the real plugin; several sites on one line behind non-ASCII text; equal values of different types under two keys",
    "C10": "hand-written layouts: parenthesised user-controlled parts, f-strings vs. str subclasses; star containers re-evaluated; bounds / members holding Is()",
    "C11": "parenthesised element expressions; odd line separators above the call; one class name bound to different kinds of classes per site (strict batches); defaultdict displays",
    "C12": "strings built from runs of 1-6 quote characters around line ends; fix between strings that differ only in quote kinds / backslashes",
    "C13": "fixed histories with invariant oracles: one content under several suffixes, relative storage-dir from different working directories; edge suffixes; import-shape histories (re-export, alias, star, try, tidied import); references written under one hash-length and trimmed under another; colliding prefixes",
    "C14": "arguments modified in place between evaluations, several handles of one sub-snapshot key, twin values across call sites; one textual call duplicated in the bytecode (finally blocks)",
    "C15": "trim mode with referenced / unreferenced persisted externals; ASCII-locale write step; read boundary follows tokenize.open; unencodable values (file keeps its old bytes); formatter answering a fragment with other valid code",
    "C16": "existing dict snapshots against every insertion order of the observed dict; tuple-wrapped frozensets, dict subclasses, defaultdict snapshots in every insertion order; at most 3000 sites per cold process",
    "C17": "hashable-but-mutable values, bytearray, nested tuples; non-copyable value under a new key of an existing sub-snapshot; members tested again after the object changed (trim), a value owning a lock",
    "C18": "snapshots evaluated without source; non-ASCII lines with sibling edits; sessions started outside the project directory; the same data outsourced at several sites / files; star-expressions in never-compared snapshots",
    "C19": "generated projects (all C09 slot programs) through run_inline and the real session; pytest.ini dist options; the second real session in one directory (bytecode cache on) against the helpers",
    "C20": "black failing for one file of three; monorepo with a metadata-only pyproject.toml; format-command relative to the start directory",
}

NOT_APPLICABLE = {
}
ALL = ["C%02d" % i for i in range(1, 21)]


def main():
    checks = []
    for pid, (cat, tech, text, note, ref) in sorted(CHECKS.items()):
        checks.append({
            "property_id": pid,
            "quick_cmd": RUN % (pid, "quick"),
            "thorough_cmd": RUN % (pid, "thorough"),
            "evidence_file": "/verif/evidence/%s.json" % pid,
            "replay_cmd_template": "cd /verif && /venv/bin/python -m mc.replay {path}",
            "engine": "mc",
            "level_claimed": {"category": cat, "text": text, "design_ref": ref},
            "level_note": note + (" Added later (DESIGN.md 13.2, 13.7, 13.8): " + LATER[pid] + "." if pid in LATER else ""),
            "technique": tech,
        })
    na = []
    for pid in ALL:
        if pid not in CHECKS:
            na.append({"property_id": pid, "reason": NOT_APPLICABLE.get(pid, "check not built yet in this revision of /verif (planned, see DESIGN.md section 5); not claimed until it runs")})
    m = {
        "version": 1,
        "setup_cmd": "cd /verif && /venv/bin/python -c \"import mc.engine.core, mc.drivers.warm\"",
        "hooks": {
            "guard": "INLINE_SNAPSHOT_VERIF",
            "enable": "no hooks are needed: all observation goes through public entry points, the file system and stdlib/black seams patched inside the harness's own child processes; checks import inline_snapshot from /repo/src (asserted at start-up)",
            "baseline_off_cmd": "cd /repo && /venv/bin/python -m pytest -ra -q -p no:cacheprovider --timeout=900 --continue-on-collection-errors",
            "source_commits": [],
            "add_only": True,
        },
        "engines": [{"name": "mc", "path": "/verif/mc", "serves_properties": sorted(CHECKS),
                     "kind_free_text": "hand-written bounded-exhaustive explorer for Python: fork-per-session pool over a warm parent, enumerators, reference models, replay"}],
        "checks": checks,
        "not_applicable": na,
        "notes": "All checks: exit 0 = held on everything explored, exit 1 + VIOLATION line, exit 2 = harness error. known_findings.json lists known/fixed findings. VERIF_SEED permutes the visiting order of a fixed space only.",
    }
    p = os.path.join(V, "MANIFEST.json")
    json.dump(m, open(p, "w"), indent=1)
    vt = "/opt/veriftools/pyvenv/bin/python"
    code = "import json,jsonschema;jsonschema.validate(json.load(open('%s')), json.load(open('/root/.vp/MANIFEST.schema.json')));print('MANIFEST ok')" % p
    sys.exit(subprocess.run([vt, "-c", code]).returncode)


if __name__ == "__main__":
    main()
