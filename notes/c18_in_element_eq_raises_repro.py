from inline_snapshot import snapshot


class Boom:
    def __eq__(self, o):
        if not isinstance(o, Boom):
            raise KeyError('boom')
        return True

    __hash__ = None


def test_0():
    try:
        _r = Boom() in snapshot([1])
    except KeyError:
        pass
